// Reference oracles for the /verif checks. Independent of whatshap's sources.
#include <cstdint>
extern "C" int oracle_version() { return 1; }
