// Brute-force reference oracles for the /verif checks.  Independent of whatshap's sources:
// nothing from /repo is included or linked.  Loaded with ctypes (see mc/oracle.py).
#include <cstdint>
#include <cstring>
#include <vector>
#include <algorithm>
#include <cmath>

extern "C" int oracle_version() { return 4; }

// ---------------------------------------------------------------------------------------
// (Ped)MEC objective
//
// individuals 0..n_ind-1; trios[i] = (father, mother, child); founders own two haplotypes,
// a child's haplotype 0 is a copy of one paternal haplotype, its haplotype 1 a copy of one
// maternal haplotype, selected by the transmission value t (two bits per trio).
// conv selects how the two bits are read (the objective's minimum does not depend on it,
// only the evaluation of a returned witness does):
//   bit (2i + (conv&1 ? 1 : 0))  belongs to the father, the other one to the mother
//   conv&2 == 0: bit value 1 selects parental haplotype 0 ; conv&2 != 0: bit value 1 selects haplotype 1
// ---------------------------------------------------------------------------------------
static const int64_t INF = (int64_t)1 << 60;

struct PedInst {
    int n_ind, n_trios;
    const int* trios;    // n_trios*3
    int R, C;
    const int* read_ind; // R
    const int* allele;   // R*C : -1 blank, 0, 1
    const int* weight;   // R*C
    const int* active;   // R*C : 1 if the read spans column c (between first and last entry)
    int distrust;
    const int* gt;       // n_ind*C : genotype index 0,1,2 (trusted mode)
    const int* gl;       // n_ind*C*3 : phred cost of genotype index (distrust mode)
    const int* rc;       // C
    int conv;
};

static void hap_partitions(const PedInst& I, int t, int out[][2]) {
    // founder haplotype slots
    int is_child[8] = {0};
    for (int i = 0; i < I.n_trios; ++i) is_child[I.trios[3 * i + 2]] = 1;
    int p = 0;
    for (int i = 0; i < I.n_ind; ++i) {
        out[i][0] = out[i][1] = -1;
        if (!is_child[i]) { out[i][0] = p; out[i][1] = p + 1; p += 2; }
    }
    // resolve children (parents may themselves be children: iterate to a fixed point)
    for (int round = 0; round < I.n_ind; ++round) {
        for (int i = 0; i < I.n_trios; ++i) {
            int f = I.trios[3 * i], m = I.trios[3 * i + 1], c = I.trios[3 * i + 2];
            if (out[c][0] != -1 || out[f][0] == -1 || out[m][0] == -1) continue;
            int fb = (t >> (2 * i + ((I.conv & 1) ? 1 : 0))) & 1;
            int mb = (t >> (2 * i + ((I.conv & 1) ? 0 : 1))) & 1;
            int fh = (I.conv & 2) ? fb : !fb;
            int mh = (I.conv & 2) ? mb : !mb;
            out[c][0] = out[f][fh];
            out[c][1] = out[m][mh];
        }
    }
}

// cost of column c for bipartition `part` (bit r = haplotype of read r within its individual)
// and transmission value t; masks[i*2+h] gets a bit mask of the alleles (1: allele 0, 2: allele 1)
// that haplotype h of individual i carries in the cost-optimal admissible assignments.
static int64_t col_cost(const PedInst& I, unsigned part, int c, int t, int* masks) {
    int hp[8][2];
    hap_partitions(I, t, hp);
    int P = 2 * (I.n_ind - I.n_trios);
    int64_t mism[8][2];
    for (int p = 0; p < P; ++p) mism[p][0] = mism[p][1] = 0;
    for (int r = 0; r < I.R; ++r) {
        int a = I.allele[r * I.C + c];
        if (a < 0) continue;
        int h = (part >> r) & 1;
        int p = hp[I.read_ind[r]][h];
        // placing allele x on this haplotype costs the weight of every entry != x
        mism[p][1 - a] += I.weight[r * I.C + c];
    }
    int64_t best = INF;
    if (masks) for (int k = 0; k < 2 * I.n_ind; ++k) masks[k] = 0;
    for (int pass = 0; pass < (masks ? 2 : 1); ++pass) {
        for (int asg = 0; asg < (1 << P); ++asg) {
            int64_t cost = 0;
            bool ok = true;
            for (int i = 0; i < I.n_ind && ok; ++i) {
                int a0 = (asg >> hp[i][0]) & 1, a1 = (asg >> hp[i][1]) & 1;
                int g = a0 + a1;
                if (I.distrust) cost += I.gl[(i * I.C + c) * 3 + g];
                else if (g != I.gt[i * I.C + c]) ok = false;
            }
            if (!ok) continue;
            for (int p = 0; p < P; ++p) cost += mism[p][(asg >> p) & 1];
            if (pass == 0) { if (cost < best) best = cost; }
            else if (cost == best) {
                for (int i = 0; i < I.n_ind; ++i)
                    for (int h = 0; h < 2; ++h) masks[i * 2 + h] |= 1 << ((asg >> hp[i][h]) & 1);
            }
        }
    }
    return best;
}

static int popcnt(unsigned x) { int n = 0; for (; x; x >>= 1) n += x & 1; return n; }

static PedInst mk(int n_ind, int n_trios, const int* trios, int R, int C, const int* read_ind,
                  const int* allele, const int* weight, const int* active, int distrust, const int* gt,
                  const int* gl, const int* rc, int conv) {
    PedInst I{n_ind, n_trios, trios, R, C, read_ind, allele, weight, active, distrust, gt, gl, rc, conv};
    return I;
}


// ---------------------------------------------------------------------------------------
// Genotyping HMM posterior (C08).  Hidden state per column: (bipartition of the reads,
// transmission value, allele assignment to the founder haplotypes).  Plain (unscaled, long
// double, every column kept) summation:
//   mode 0: explicit enumeration of all global bipartitions x transmission paths x allele paths
//   mode 1: for every global bipartition, forward-backward over the transmission values
// prior: n_ind*C*3 doubles (prior probability of genotype index 0,1,2)
// rc: recombination cost per column (phred), qual = weight array (phred base quality)
// out: C*n_ind*3 doubles
// ---------------------------------------------------------------------------------------
static long double eps_of(int q) { return powl(10.0L, -(long double)q / 10.0L); }

static void assignment_probs(const PedInst& I, const double* prior, int c, int t, std::vector<long double>& pa, int hp[][2]) {
    hap_partitions(I, t, hp);
    int P = 2 * (I.n_ind - I.n_trios);
    int A = 1 << P;
    pa.assign(A, 0.0L);
    std::vector<int> code(A);
    std::vector<int> count(1 << (2 * I.n_ind), 0);  // genotype vector code (2 bits per individual)
    for (int a = 0; a < A; ++a) {
        long double p = 1.0L;
        int gcode = 0;
        for (int i = 0; i < I.n_ind; ++i) {
            int g = ((a >> hp[i][0]) & 1) + ((a >> hp[i][1]) & 1);
            p *= prior[(i * I.C + c) * 3 + g];
            gcode |= g << (2 * i);
        }
        code[a] = gcode;
        count[gcode] += 1;
        pa[a] = p;
    }
    long double sum = 0.0L;
    for (int a = 0; a < A; ++a) { pa[a] /= count[code[a]]; sum += pa[a]; }
    for (int a = 0; a < A; ++a) pa[a] /= sum;
}

static long double emission(const PedInst& I, unsigned part, int c, int a, int hp[][2]) {
    long double e = 1.0L;
    for (int r = 0; r < I.R; ++r) {
        int al = I.allele[r * I.C + c];
        if (al < 0) continue;
        int h = (part >> r) & 1;
        int hap_allele = (a >> hp[I.read_ind[r]][h]) & 1;
        long double eps = eps_of(I.weight[r * I.C + c]);
        e *= (hap_allele == al) ? (1.0L - eps) : eps;
    }
    return e;
}

extern "C" int genotype_posterior(int n_ind, int n_trios, const int* trios, int R, int C, const int* read_ind,
                                  const int* allele, const int* weight, const double* prior, const int* rc,
                                  int mode, double* out) {
    PedInst I = mk(n_ind, n_trios, trios, R, C, read_ind, allele, weight, nullptr, 1, nullptr, nullptr, rc, 0);
    int T = 1 << (2 * n_trios);
    int P = 2 * (n_ind - n_trios);
    int A = 1 << P;
    std::vector<long double> acc((size_t)C * n_ind * 3, 0.0L);
    // transition matrices per column
    std::vector<long double> tr((size_t)C * T * T, 0.0L);
    for (int c = 0; c < C; ++c) {
        long double r = eps_of(rc[c]);
        for (int j = 0; j < T; ++j) {
            long double sum = 0.0L;
            for (int i = 0; i < T; ++i) {
                int x = popcnt((unsigned)(i ^ j));
                long double p = powl(r, x) * powl(1.0L - r, 2 * n_trios - x);
                tr[((size_t)c * T + j) * T + i] = p;
                sum += p;
            }
            for (int i = 0; i < T; ++i) tr[((size_t)c * T + j) * T + i] /= sum;
        }
    }
    // per column / transmission: assignment probabilities and haplotype maps
    std::vector<std::vector<long double>> pa((size_t)C * T);
    std::vector<int> hps((size_t)T * 8 * 2);
    for (int t = 0; t < T; ++t) {
        int hp[8][2];
        hap_partitions(I, t, hp);
        for (int i = 0; i < n_ind; ++i) { hps[((size_t)t * 8 + i) * 2] = hp[i][0]; hps[((size_t)t * 8 + i) * 2 + 1] = hp[i][1]; }
        for (int c = 0; c < C; ++c) { int hp2[8][2]; assignment_probs(I, prior, c, t, pa[(size_t)c * T + t], hp2); }
    }
    for (unsigned part = 0; part < (1u << R); ++part) {
        // w[c][t][a] = P(a|t) * emission
        std::vector<long double> w((size_t)C * T * A);
        for (int c = 0; c < C; ++c)
            for (int t = 0; t < T; ++t) {
                int hp[8][2];
                for (int i = 0; i < n_ind; ++i) { hp[i][0] = hps[((size_t)t * 8 + i) * 2]; hp[i][1] = hps[((size_t)t * 8 + i) * 2 + 1]; }
                for (int a = 0; a < A; ++a) w[((size_t)c * T + t) * A + a] = pa[(size_t)c * T + t][a] * emission(I, part, c, a, hp);
            }
        if (mode == 1) {
            std::vector<long double> e((size_t)C * T, 0.0L), F((size_t)C * T), B((size_t)C * T);
            for (int c = 0; c < C; ++c)
                for (int t = 0; t < T; ++t) { long double s = 0; for (int a = 0; a < A; ++a) s += w[((size_t)c * T + t) * A + a]; e[(size_t)c * T + t] = s; }
            // F[c][t] = sum over paths up to c-1 (excluding column c's own weight)
            for (int t = 0; t < T; ++t) F[t] = 1.0L;
            for (int c = 1; c < C; ++c)
                for (int t = 0; t < T; ++t) {
                    long double s = 0;
                    for (int j = 0; j < T; ++j) s += F[(size_t)(c - 1) * T + j] * e[(size_t)(c - 1) * T + j] * tr[((size_t)c * T + j) * T + t];
                    F[(size_t)c * T + t] = s;
                }
            for (int t = 0; t < T; ++t) B[(size_t)(C - 1) * T + t] = 1.0L;
            for (int c = C - 2; c >= 0; --c)
                for (int t = 0; t < T; ++t) {
                    long double s = 0;
                    for (int i = 0; i < T; ++i) s += tr[((size_t)(c + 1) * T + t) * T + i] * e[(size_t)(c + 1) * T + i] * B[(size_t)(c + 1) * T + i];
                    B[(size_t)c * T + t] = s;
                }
            for (int c = 0; c < C; ++c)
                for (int t = 0; t < T; ++t) {
                    long double fb = F[(size_t)c * T + t] * B[(size_t)c * T + t];
                    for (int a = 0; a < A; ++a) {
                        long double x = fb * w[((size_t)c * T + t) * A + a];
                        for (int i = 0; i < n_ind; ++i) {
                            int g = ((a >> hps[((size_t)t * 8 + i) * 2]) & 1) + ((a >> hps[((size_t)t * 8 + i) * 2 + 1]) & 1);
                            acc[((size_t)c * n_ind + i) * 3 + g] += x;
                        }
                    }
                }
        } else {
            // odometer over (t_c, a_c) for all columns
            std::vector<int> tp(C, 0), ap(C, 0);
            while (true) {
                long double x = 1.0L;
                for (int c = 0; c < C; ++c) {
                    x *= w[((size_t)c * T + tp[c]) * A + ap[c]];
                    if (c > 0) x *= tr[((size_t)c * T + tp[c - 1]) * T + tp[c]];
                }
                for (int c = 0; c < C; ++c)
                    for (int i = 0; i < n_ind; ++i) {
                        int t = tp[c], a = ap[c];
                        int g = ((a >> hps[((size_t)t * 8 + i) * 2]) & 1) + ((a >> hps[((size_t)t * 8 + i) * 2 + 1]) & 1);
                        acc[((size_t)c * n_ind + i) * 3 + g] += x;
                    }
                int k = 0;
                while (k < 2 * C) {
                    if (k % 2 == 0) { if (++tp[k / 2] < T) break; tp[k / 2] = 0; }
                    else { if (++ap[k / 2] < A) break; ap[k / 2] = 0; }
                    ++k;
                }
                if (k == 2 * C) break;
            }
        }
    }
    for (int c = 0; c < C; ++c)
        for (int i = 0; i < n_ind; ++i) {
            long double s = 0;
            for (int g = 0; g < 3; ++g) s += acc[((size_t)c * n_ind + i) * 3 + g];
            for (int g = 0; g < 3; ++g) out[((size_t)c * n_ind + i) * 3 + g] = (double)(s > 0 ? acc[((size_t)c * n_ind + i) * 3 + g] / s : 0.0L);
        }
    return 0;
}

extern "C" {

// global minimum over all bipartitions and transmission paths.
// mode 0: explicit enumeration of every transmission path; mode 1: Viterbi over columns.
// returns -1 if no admissible solution exists.
int64_t pedmec_min(int n_ind, int n_trios, const int* trios, int R, int C, const int* read_ind,
                   const int* allele, const int* weight, const int* active, int distrust, const int* gt,
                   const int* gl, const int* rc, int mode) {
    PedInst I = mk(n_ind, n_trios, trios, R, C, read_ind, allele, weight, active, distrust, gt, gl, rc, 0);
    int T = 1 << (2 * n_trios);
    int64_t best = INF;
    std::vector<int64_t> cc((size_t)C * T);
    for (unsigned part = 0; part < (1u << R); ++part) {
        for (int c = 0; c < C; ++c)
            for (int t = 0; t < T; ++t) cc[(size_t)c * T + t] = col_cost(I, part, c, t, nullptr);
        if (C == 0) { best = 0; break; }
        if (mode == 1) {
            std::vector<int64_t> cur(T), nxt(T);
            for (int t = 0; t < T; ++t) cur[t] = cc[t];
            for (int c = 1; c < C; ++c) {
                for (int t = 0; t < T; ++t) {
                    int64_t m = INF;
                    if (cc[(size_t)c * T + t] < INF)
                        for (int s = 0; s < T; ++s)
                            if (cur[s] < INF) m = std::min(m, cur[s] + (int64_t)popcnt(s ^ t) * rc[c] + cc[(size_t)c * T + t]);
                    nxt[t] = m;
                }
                cur.swap(nxt);
            }
            for (int t = 0; t < T; ++t) best = std::min(best, cur[t]);
        } else {
            // odometer over all T^C paths
            std::vector<int> path(C, 0);
            while (true) {
                int64_t cost = 0;
                for (int c = 0; c < C && cost < INF; ++c) {
                    int64_t x = cc[(size_t)c * T + path[c]];
                    if (x >= INF) { cost = INF; break; }
                    cost += x;
                    if (c > 0) cost += (int64_t)popcnt(path[c] ^ path[c - 1]) * rc[c];
                }
                best = std::min(best, cost);
                int k = 0;
                while (k < C && ++path[k] == T) { path[k] = 0; ++k; }
                if (k == C) break;
            }
        }
    }
    return best >= INF ? -1 : best;
}

// cost of a given witness (bipartition as bit mask over reads, transmission value per column)
// under convention conv; masks_out (C * n_ind * 2) receives the optimal-allele masks per column.
// returns -1 if the witness is inadmissible.
int64_t pedmec_eval(int n_ind, int n_trios, const int* trios, int R, int C, const int* read_ind,
                    const int* allele, const int* weight, const int* active, int distrust, const int* gt,
                    const int* gl, const int* rc, int conv, unsigned part, const int* tvec, int* masks_out) {
    PedInst I = mk(n_ind, n_trios, trios, R, C, read_ind, allele, weight, active, distrust, gt, gl, rc, conv);
    int64_t cost = 0;
    for (int c = 0; c < C; ++c) {
        int64_t x = col_cost(I, part, c, tvec[c], masks_out ? masks_out + (size_t)c * n_ind * 2 : nullptr);
        if (x >= INF) return -1;
        cost += x;
        if (c > 0) cost += (int64_t)popcnt((unsigned)(tvec[c] ^ tvec[c - 1])) * rc[c];
    }
    return cost;
}

// plain full-matrix Levenshtein distance
int levenshtein(const char* s, int m, const char* t, int n) {
    std::vector<int> d((size_t)(m + 1) * (n + 1));
    for (int i = 0; i <= m; ++i) d[(size_t)i * (n + 1)] = i;
    for (int j = 0; j <= n; ++j) d[j] = j;
    for (int i = 1; i <= m; ++i)
        for (int j = 1; j <= n; ++j) {
            int a = d[(size_t)(i - 1) * (n + 1) + j] + 1, b = d[(size_t)i * (n + 1) + j - 1] + 1,
                c = d[(size_t)(i - 1) * (n + 1) + j - 1] + (s[i - 1] != t[j - 1]);
            d[(size_t)i * (n + 1) + j] = std::min(a, std::min(b, c));
        }
    return d[(size_t)m * (n + 1) + n];
}

}  // extern "C"
