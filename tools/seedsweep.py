#!/venv/bin/python
"""tools/seedsweep.py [--tier quick] [ID-X ...]: run the checks against every stored seed
(/verif/seeded/<ID>-<X>/patch.diff) in scratch worktrees and write /verif/seeded/RESULTS.md
and seeded/<ID>-<X>/meta.json["checks"].  Evidence of these runs is redirected (never
written to /verif/evidence)."""
import json
import os
import subprocess
import sys
import shutil
import tempfile

VERIF = os.path.dirname(os.path.dirname(os.path.abspath(__file__)))
EXTRA = {"C02-P": ["C02", "C06"], "C17-P": ["C17", "C10"], "C10-A": ["C10", "C06"], "C02-A": ["C02", "C06"], "C17-D": ["C17", "C10"], "C17-K": ["C17", "C10"], "C16-I": ["C16", "C20"]}


def main():
    args = [a for a in sys.argv[1:] if not a.startswith("--")]
    tier = "quick"
    if "--tier" in sys.argv:
        tier = sys.argv[sys.argv.index("--tier") + 1]
        args = [a for a in args if a != tier]
    root = os.path.join(VERIF, "seeded")
    seeds = sorted(d for d in os.listdir(root) if os.path.isdir(os.path.join(root, d)) and (not args or d in args))
    rows = []
    for sd in seeds:
        pid = sd.split("-")[0]
        patch = os.path.join(root, sd, "patch.diff")
        metaf = os.path.join(root, sd, "meta.json")
        meta = json.load(open(metaf)) if os.path.exists(metaf) else {}
        wt = tempfile.mkdtemp(prefix="wt-sweep-", dir="/var/tmp")
        os.rmdir(wt)
        try:
            subprocess.run(["git", "-C", "/repo", "worktree", "add", "--detach", "-q", wt, "HEAD"], check=True)
            shutil.copy("/repo/whatshap/_version.py", os.path.join(wt, "whatshap", "_version.py"))
            r = subprocess.run(["git", "-C", wt, "apply", patch], capture_output=True, text=True)
            if r.returncode != 0:
                # context moved by a later fix: three-way merge against the blobs the patch was made from
                r = subprocess.run(["git", "-C", wt, "apply", "--3way", patch], capture_output=True, text=True)
                if r.returncode != 0 or subprocess.run(["git", "-C", wt, "diff", "--name-only", "--diff-filter=U"], capture_output=True, text=True).stdout.strip():
                    subprocess.run(["git", "-C", wt, "checkout", "-q", "--", "."])
                    r.returncode = 1
            if r.returncode != 0:
                rows.append((sd, "patch does not apply to the current HEAD (superseded by a later fix)", ""))
                meta["applies_to_head"] = False
            else:
                meta["applies_to_head"] = True
                res = {}
                for c in EXTRA.get(sd, [pid]):
                    env = dict(os.environ, VERIF_REPO=wt, VERIF_EVIDENCE_DIR="/var/tmp/verif-scratch-evidence", VERIF_REPLAY_DIR="/var/tmp/verif-scratch-replays")
                    cr = subprocess.run([os.path.join(VERIF, "check"), c, "--tier", tier], cwd=VERIF, env=env, capture_output=True, text=True)
                    lines = [l.strip() for l in cr.stdout.splitlines() if l.strip().startswith("clause=")]
                    res[c] = {"tier": tier, "exit": cr.returncode, "first": lines[0][:300] if lines else ""}
                meta.setdefault("checks", {}).update(res)
                caught = [c for c, v in res.items() if v["exit"] == 1]
                rows.append((sd, "caught by " + ", ".join(caught) if caught else "MISSED (" + ", ".join(f"{c}: exit {v['exit']}" for c, v in res.items()) + ")", "; ".join(v["first"] for v in res.values() if v["first"])[:220]))
            with open(metaf, "w") as f:
                json.dump(meta, f, indent=1)
        finally:
            subprocess.run(["git", "-C", "/repo", "worktree", "remove", "--force", wt])
            shutil.rmtree(wt, ignore_errors=True)
        print(rows[-1][0], "|", rows[-1][1])
    # RESULTS.md is rebuilt from the meta.json files of ALL stored seeds (latest recorded run of each)
    allseeds = sorted(d for d in os.listdir(root) if os.path.isdir(os.path.join(root, d)))
    with open(os.path.join(root, "RESULTS.md"), "w") as f:
        f.write("# Seeded changes vs. checks (latest recorded run of every seed against /repo HEAD)\n\n| seed | result | first reported clause |\n|---|---|---|\n")
        for sd in allseeds:
            mf = os.path.join(root, sd, "meta.json")
            meta = json.load(open(mf)) if os.path.exists(mf) else {}
            if meta.get("applies_to_head") is False:
                f.write(f"| {sd} | patch does not apply to the current HEAD (superseded by a later fix) | |\n")
                continue
            res = meta.get("checks") or {}
            caught = [c for c, v in res.items() if v.get("exit") == 1]
            if not res:
                line = "not swept yet"
            elif caught:
                line = "caught by " + ", ".join(caught)
            else:
                line = "MISSED (" + ", ".join(f"{c}: exit {v.get('exit')}" for c, v in res.items()) + ")"
            first = "; ".join(v.get("first", "") for v in res.values() if v.get("first"))[:220]
            note = f" ({meta["rebased"][:60]}...)" if meta.get("rebased") else (" (no longer breaks the property: " + meta["neutralised"][:80] + "...)" if meta.get("neutralised") else "")
            f.write(f"| {sd} | {line}{note} | {first.replace('|', '/')} |\n")


if __name__ == "__main__":
    main()
