#!/bin/bash
# tools/runmuts.sh <ID> [mode=check|both] [extra check args]: run every mutant of a property
ID=$1; MODE=${2:-check}; shift; shift
for f in /verif/mutants/$ID/*.diff; do
  echo "=== $(basename $f)"
  /verif/tools/mutant.py $MODE $f $ID "$@" 2>&1 | grep -E "^(TESTS|CHECK|VIOLATION|PATCH|BUILD|  clause)" | head -6
done
