#!/venv/bin/python
"""prints the prompt for a seeding sub-agent: tools/seed_prompt.py <ID>"""
import json, sys
pid = sys.argv[1]
props = {json.loads(l)["id"]: json.loads(l) for l in open("/verif/properties.jsonl") if l.strip()}
p = props[pid]
wt = f"/tmp/seed-{pid}"
print(f"""You are helping to evaluate a verification harness for the open-source tool WhatsHap (read-based haplotype phasing; Python + Cython + C++). You get ONE semantic property of WhatsHap and your own scratch git worktree of its repository at {wt} (a detached checkout of the current HEAD; the compiled extension modules are already copied in place, and whatshap/_version.py exists). Work ONLY inside {wt}. Do not read or touch /repo, /verif or any other directory outside {wt} (reading installed site-packages under /venv is fine).

THE PROPERTY ({pid}: {p['title']})
Statement: {p['statement']}
Quantified over: {p['quantifier']['text']}
Relevant code (anchors): files {', '.join(p['anchors']['files'])}; mechanisms: {'; '.join(m['name'] + ' @ ' + m['where'] for m in p['anchors'].get('mechanism', []))}

YOUR TASK
Produce TWO different, independent, realistic changes ("seeded defects") to WhatsHap's source code, each of which BREAKS this property while the code still compiles and the repository's existing test suite still passes. Think of plausible maintainer mistakes: an off-by-one in index/offset/cursor logic, a wrong operand, a swapped or stale variable, a boundary condition (< vs <=), a cached or shared mutable value, an incomplete refactoring, two cooperating sites that each look fine alone. Prefer changes that need something SPECIFIC to manifest (a particular input shape, a multi-step sequence of operations, an unusual but legal input, a particular overlap geometry) rather than changes that break ordinary use at once — a change that the existing tests catch is useless.

For each of the two changes (call them A and B) deliver, under {wt}/SEED/A and {wt}/SEED/B:
  1. patch.diff  — `git diff` of the change relative to HEAD (only source files of whatshap: whatshap/**, src/**; not tests).
  2. demo.py (or test_demo.py) — a small self-contained program that exercises the real code through its Python API or CLI functions, FAILS (non-zero exit / assertion error) with the change applied and PASSES on the unchanged HEAD. It must show a violation of the property statement above, not just 'some output changed'.
  3. README.md — 5-10 lines: what the change is, why it breaks the property, and exactly what is needed for it to manifest.

HOW TO BUILD AND TEST (all offline)
  - Python-only changes need no build. After changing a .pyx file or anything under src/, rebuild in place:  cd {wt} && /venv/bin/python setup.py build_ext --inplace -j 16   (takes 1-2 minutes; warnings are fine).
  - Run the test suite from the worktree root so that the worktree's package is imported:  cd {wt} && /venv/bin/python -m pytest -q -p no:cacheprovider -x --deselect tests/test_run_phase.py::test_vcf_with_missing_headers   (the three deselected tests fail on the pristine tree too; everything else must pass: 430 passed). Verify with `/venv/bin/python -c "import whatshap; print(whatshap.__file__)"` run from {wt} that {wt}/whatshap is what gets imported.
  - Run your demo the same way (cd {wt} first).
  - Procedure per change: apply change -> (re)build if needed -> run full test suite (must pass) -> run demo (must fail) -> save `git diff > SEED/X/patch.diff` -> `git checkout -- whatshap src` and rebuild if needed -> run demo again (must pass). Leave the worktree with NO uncommitted source changes at the end (only the SEED directory added).

Report back, for A and B: one-paragraph description, the test-suite result you observed with the change applied, the demo result with and without the change. If you cannot find a second change that survives the test suite, deliver one and say so.""")
