#!/bin/bash
# runs the repository's baseline test suite (guard off) on /repo; succeeds iff 430 passed and only the 3 known failures
cd /repo && env -u WHATSHAP_VERIF_TRACE /venv/bin/python -m pytest -q -p no:cacheprovider > /tmp/repotest.log 2>&1
tail -1 /tmp/repotest.log | cut -c1-160
grep -q "^3 failed, 430 passed" /tmp/repotest.log
