#!/venv/bin/python
"""Development aid: evaluate a property-breaking patch in a scratch worktree (never in /repo).

  tools/mutant.py tests <patch>                 run the repository's test suite on the patched tree
  tools/mutant.py check <patch> <ID> [args...]  run ./check <ID> against the patched tree
  tools/mutant.py both  <patch> <ID> [args...]

The worktree lives under /var/tmp and is removed afterwards together with its build output
(the object cache is shared and content-addressed, so nothing stale can leak).
"""
import os
import shutil
import subprocess
import sys
import tempfile

VERIF = os.path.dirname(os.path.dirname(os.path.abspath(__file__)))


def sh(cmd, **kw):
    return subprocess.run(cmd, shell=isinstance(cmd, str), **kw)


def main():
    mode, patch = sys.argv[1], os.path.abspath(sys.argv[2])
    rest = sys.argv[3:]
    wt = tempfile.mkdtemp(prefix="wt-mut-", dir="/var/tmp")
    os.rmdir(wt)
    rc = 0
    try:
        sh(["git", "-C", "/repo", "worktree", "add", "--detach", "-q", wt, "HEAD"], check=True)
        # carry over uncommitted changes of /repo? No: mutants are relative to HEAD.
        r = sh(["git", "-C", wt, "apply", patch])
        if r.returncode != 0:
            print("PATCH DOES NOT APPLY")
            return 3
        env = dict(os.environ, VERIF_REPO=wt, VERIF_EVIDENCE_DIR="/var/tmp/verif-scratch-evidence", VERIF_REPLAY_DIR="/var/tmp/verif-scratch-replays")
        shutil.copy("/repo/whatshap/_version.py", os.path.join(wt, "whatshap", "_version.py"))
        if mode in ("tests", "both"):
            out = subprocess.run(["/venv/bin/python", "-m", "mc.build"], cwd=VERIF, env=env, capture_output=True, text=True)
            if out.returncode != 0:
                print("BUILD FAILED\n" + out.stdout[-3000:] + out.stderr[-3000:])
                return 4
            overlay = out.stdout.strip().splitlines()[-1]
            env2 = dict(env, PYTHONPATH=overlay)
            env2.pop("WHATSHAP_VERIF_TRACE", None)
            t = subprocess.run(
                ["/venv/bin/python", "-P", "-m", "pytest", "-q", "-p", "no:cacheprovider", "--import-mode=importlib", "-x", "--deselect", "tests/test_run_phase.py::test_vcf_with_missing_headers"],
                cwd=wt,
                env=env2,
                capture_output=True,
                text=True,
            )
            tail = "\n".join(t.stdout.strip().splitlines()[-6:])
            print("TESTS:", "PASS" if t.returncode == 0 else "FAIL", "\n" + tail)
            if t.returncode != 0:
                rc = 5
        if mode in ("check", "both"):
            pid = rest[0]
            c = subprocess.run([os.path.join(VERIF, "check"), pid] + rest[1:], cwd=VERIF, env=env, capture_output=True, text=True)
            lines = [l for l in c.stdout.splitlines() if l.startswith(("VIOLATION", "KNOWN", "[", "  clause"))]
            print(f"CHECK {pid}: exit {c.returncode}")
            print("\n".join(l for l in c.stderr.splitlines() if l.startswith("[build]")))
            print("\n".join(lines[-12:]))
            if c.returncode not in (0, 1):
                print(c.stderr[-3000:])
            # replays written against a mutant are not artefacts of the real tree
    finally:
        sh(["git", "-C", "/repo", "worktree", "remove", "--force", wt])
        shutil.rmtree(wt, ignore_errors=True)
    return rc


if __name__ == "__main__":
    sys.exit(main())
