#!/venv/bin/python
"""tools/seedverify.py <ID> <X> [--src DIR] [--checks ID1,ID2] [--tier quick]

Confirms a seeded defect delivered by a sub-agent in DIR (default /tmp/seed-<ID>/SEED/<X>):
  1. on a fresh scratch worktree of /repo HEAD the demo passes,
  2. with patch.diff applied the tree builds, the repository's test suite passes and the demo fails,
  3. runs the /verif check(s) against the patched tree and reports whether they raise the alarm.
If 1 and 2 hold, the seed is stored as /verif/seeded/<ID>-<X>/ (patch.diff, demo, README, meta.json).
The scratch worktree and its build output are removed afterwards.
"""
import argparse
import glob
import json
import os
import shutil
import subprocess
import sys
import tempfile
import time

VERIF = os.path.dirname(os.path.dirname(os.path.abspath(__file__)))


def run(cmd, **kw):
    return subprocess.run(cmd, capture_output=True, text=True, **kw)


def build_inplace(wt):
    env = dict(os.environ, VERIF_REPO=wt)
    out = run(["/venv/bin/python", "-m", "mc.build"], cwd=VERIF, env=env)
    if out.returncode != 0:
        return None, out.stdout[-2000:] + out.stderr[-2000:]
    overlay = out.stdout.strip().splitlines()[-1]
    for f in glob.glob(os.path.join(overlay, "whatshap", "**", "*.so"), recursive=True):
        rel = os.path.relpath(f, overlay)
        dst = os.path.join(wt, rel)
        if os.path.lexists(dst):
            os.unlink(dst)
        shutil.copyfile(os.path.realpath(f), dst)
    return overlay, ""


def main():
    ap = argparse.ArgumentParser()
    ap.add_argument("pid")
    ap.add_argument("x")
    ap.add_argument("--src")
    ap.add_argument("--checks")
    ap.add_argument("--tier", default="quick")
    ap.add_argument("--no-store", action="store_true")
    a = ap.parse_args()
    src = a.src or f"/tmp/seed-{a.pid}/SEED/{a.x}"
    checks = (a.checks or a.pid).split(",")
    demos = [f for f in os.listdir(src) if f.endswith(".py")]
    if not demos or not os.path.exists(os.path.join(src, "patch.diff")):
        print("missing demo or patch.diff in", src)
        return 2
    demo = demos[0]
    wt = tempfile.mkdtemp(prefix="wt-seed-", dir="/var/tmp")
    os.rmdir(wt)
    meta = {"property": a.pid, "seed": a.x, "verified_at": time.strftime("%Y-%m-%d %H:%M:%S"), "ran": []}
    ok = True
    try:
        subprocess.run(["git", "-C", "/repo", "worktree", "add", "--detach", "-q", wt, "HEAD"], check=True)
        meta["repo_head"] = run(["git", "-C", "/repo", "rev-parse", "--short", "HEAD"]).stdout.strip()
        shutil.copy("/repo/whatshap/_version.py", os.path.join(wt, "whatshap", "_version.py"))
        os.makedirs(os.path.join(wt, "SEED", a.x))
        for f in os.listdir(src):
            if os.path.isfile(os.path.join(src, f)):
                shutil.copy(os.path.join(src, f), os.path.join(wt, "SEED", a.x, f))
        demo_cmd = ["/venv/bin/python", os.path.join("SEED", a.x, demo)] if not demo.startswith("test_") else ["/venv/bin/python", "-m", "pytest", "-q", "-p", "no:cacheprovider", os.path.join("SEED", a.x, demo)]
        env = {k: v for k, v in os.environ.items() if k not in ("WHATSHAP_VERIF_TRACE", "PYTHONPATH")}
        # 1. pristine
        ov, msg = build_inplace(wt)
        if ov is None:
            print("BUILD (pristine) FAILED", msg)
            return 2
        r = run(demo_cmd, cwd=wt, env=env)
        meta["ran"].append({"cmd": " ".join(demo_cmd), "tree": "HEAD", "exit": r.returncode})
        print(f"demo on HEAD: exit {r.returncode}")
        if r.returncode != 0:
            ok = False
            print(r.stdout[-1500:], r.stderr[-1500:])
        # 2. patched
        r = run(["git", "-C", wt, "apply", os.path.join(src, "patch.diff")])
        if r.returncode != 0:
            print("PATCH DOES NOT APPLY", r.stderr)
            return 2
        ov, msg = build_inplace(wt)
        if ov is None:
            print("BUILD (patched) FAILED", msg)
            return 2
        t = run(["/venv/bin/python", "-m", "pytest", "-q", "-p", "no:cacheprovider", "--deselect", "tests/test_run_phase.py::test_vcf_with_missing_headers"], cwd=wt, env=env)
        tail = t.stdout.strip().splitlines()[-1] if t.stdout.strip() else ""
        meta["ran"].append({"cmd": "pytest (repository suite) on patched tree", "exit": t.returncode, "summary": tail})
        print(f"test suite on patched tree: exit {t.returncode}: {tail}")
        if t.returncode != 0:
            ok = False
            print("\n".join(t.stdout.strip().splitlines()[-15:]))
        r = run(demo_cmd, cwd=wt, env=env)
        meta["ran"].append({"cmd": " ".join(demo_cmd), "tree": "patched", "exit": r.returncode})
        print(f"demo on patched tree: exit {r.returncode}")
        if r.returncode == 0:
            ok = False
        # 3. checks
        meta["checks"] = {}
        for c in checks:
            env2 = dict(os.environ, VERIF_REPO=wt, VERIF_EVIDENCE_DIR="/var/tmp/verif-scratch-evidence", VERIF_REPLAY_DIR="/var/tmp/verif-scratch-replays")
            cr = run([os.path.join(VERIF, "check"), c, "--tier", a.tier], cwd=VERIF, env=env2)
            lines = [l for l in cr.stdout.splitlines() if l.startswith(("VIOLATION", "  clause"))]
            meta["checks"][c] = {"tier": a.tier, "exit": cr.returncode, "lines": lines[:6]}
            print(f"check {c} ({a.tier}) on patched tree: exit {cr.returncode}")
            for l in lines[:4]:
                print("   ", l[:300])
            if cr.returncode not in (0, 1):
                print(cr.stderr[-1500:])
            # restore the evidence of the real tree is the caller's business (re-run the check)
    finally:
        subprocess.run(["git", "-C", "/repo", "worktree", "remove", "--force", wt])
        shutil.rmtree(wt, ignore_errors=True)
    meta["confirmed"] = ok
    if ok and not a.no_store:
        dst = os.path.join(VERIF, "seeded", f"{a.pid}-{a.x}")
        os.makedirs(dst, exist_ok=True)
        for f in os.listdir(src):
            if os.path.isfile(os.path.join(src, f)):
                shutil.copy(os.path.join(src, f), os.path.join(dst, f))
        readme = os.path.join(src, "README.md")
        meta["needs_to_manifest"] = open(readme).read()[:1500] if os.path.exists(readme) else ""
        with open(os.path.join(dst, "meta.json"), "w") as f:
            json.dump(meta, f, indent=1)
        print("stored", dst)
    print("CONFIRMED" if ok else "NOT CONFIRMED")
    return 0 if ok else 1


if __name__ == "__main__":
    sys.exit(main())
