#!/bin/bash
# tools/runall.sh [tier] [ID ...]: run every (or the given) check on the real tree (regenerates evidence); prints one line per check
TIER=${1:-quick}
shift
IDS=${@:-C01 C02 C03 C04 C05 C06 C07 C08 C09 C10 C11 C12 C13 C14 C15 C16 C17 C18 C19 C20}
cd "$(dirname "$0")/.."
for id in $IDS; do
  s=$(date +%s)
  out=$(./check $id --tier $TIER 2>&1); rc=$?
  e=$(date +%s)
  echo "$id rc=$rc $((e-s))s $(echo "$out" | grep -c '^VIOLATION') violations $(echo "$out" | grep -c '^KNOWN-FINDING') known"
  if [ $rc -ne 0 ]; then echo "$out" | grep -A1 '^VIOLATION' | head -6; echo "$out" | tail -3; fi
done
