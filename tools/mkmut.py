#!/venv/bin/python
"""tools/mkmut.py <ID> <name> <file relative to /repo> <old> <new> [count]  -> mutants/<ID>/<name>.diff"""
import difflib, os, sys
pid, name, rel, old, new = sys.argv[1:6]
n = int(sys.argv[6]) if len(sys.argv) > 6 else 1
src = open(os.path.join("/repo", rel)).read()
old = old.encode().decode("unicode_escape"); new = new.encode().decode("unicode_escape")
assert src.count(old) >= 1, f"pattern not found in {rel}"
if src.count(old) != n:
    print(f"warning: pattern occurs {src.count(old)} times, replacing first {n}")
dst = src.replace(old, new, n)
d = "".join(difflib.unified_diff(src.splitlines(True), dst.splitlines(True), "a/" + rel, "b/" + rel))
out = os.path.join(os.path.dirname(os.path.dirname(os.path.abspath(__file__))), "mutants", pid)
os.makedirs(out, exist_ok=True)
open(os.path.join(out, name + ".diff"), "w").write(d)
print(d)
