#!/bin/bash
# tools/mkseedwt.sh <ID>: scratch worktree for a seeding sub-agent, with prebuilt extension modules copied in
ID=$1
WT=/tmp/seed-$ID
git -C /repo worktree add --detach -q $WT HEAD || exit 1
cp /repo/whatshap/_version.py $WT/whatshap/
for f in /repo/whatshap/*.so /repo/whatshap/polyphase/*.so; do
  rel=${f#/repo/}
  cp $f $WT/$rel
done
mkdir -p $WT/SEED
echo $WT
