#!/bin/bash
# tools/mutsweep.sh [ID ...]: run every hand-made mutant (mutants/<ID>/*.diff) against its check (quick tier); table to mutants/RESULTS.md
cd "$(dirname "$0")/.."
OUT=mutants/RESULTS.md
IDS=${@:-$(ls mutants | grep '^C')}
[ $# -eq 0 ] && echo -e "# Hand-made mutants vs. checks (quick tier)\n\n| mutant | check exit | first clause |\n|---|---|---|" > $OUT
for id in $IDS; do
  for f in mutants/$id/*.diff; do
    res=$(tools/mutant.py check $f $id 2>&1)
    rc=$(echo "$res" | grep -o "CHECK $id: exit [0-9]*" | grep -o "[0-9]*$")
    cl=$(echo "$res" | grep -m1 "clause=" | cut -c1-160 | tr '|' '/')
    echo "$id/$(basename $f .diff): exit $rc"
    [ $# -eq 0 ] && echo "| $id/$(basename $f .diff) | $rc | $cl |" >> $OUT
  done
done
