#!/venv/bin/python
"""Regenerates /verif/MANIFEST.json from the table below (single source of truth)."""
import json
import os
import subprocess

VERIF = os.path.dirname(os.path.dirname(os.path.abspath(__file__)))

EXPL = "exploration"
MC = "model_checking"

# id -> (level, technique, text, note, design_ref)
CHECKS = {
    "C18": (
        MC,
        "explicit-state BFS to closure over the exact internal state of the real objects, reference-model comparison on every transition",
        "Every reachable internal state of PriorityQueue (heap array + positions map, via the guarded _verif_state hook) and of "
        "ComponentFinder (parent forest; also two finders over overlapping values alive at the same time) over small item/score/value domains is visited; every enabled operation is executed by "
        "the real code and all observers are compared with a dict / set-partition model. Closure of the state graph makes the "
        "history length unbounded.",
        "Trusted: the reference models (dict, set partition), the _verif_state hook reporting the true internal state. Domains are "
        "bounded (<= 6 items, <= 7 scores, <= 6 values).",
        "C18",
    ),
}

CHECKS.update({
    "C01": (
        EXPL,
        "bounded-exhaustive enumeration of PedMEC instances executed on the real solver, judged by a brute-force reference",
        "All instances of a layered space (single individual, two unrelated individuals, trio, quartet, parents with five children; all read matrices up to "
        "R*C <= 12 over {0,1,absent} in every sorted order; weights, all genotype vectors, phred likelihood triples, recombination "
        "costs, explicit position lists with uncovered columns, long tables that exercise sqrt checkpointing, columns with 17-19 active reads, a pedigree with five trios, likelihoods handed over with trusted genotypes) are run through "
        "whatshap.core.PedigreeDPTable; reported cost, returned bipartition + transmission vector and every unflagged allele are "
        "compared with an independent brute force over all bipartitions, transmission paths and allele assignments.",
        "Trusted: native/oracle.cpp and its pure-Python twin (cross-checked at start-up), small value sets for weights/likelihoods/costs. "
        "Small-scope: instances beyond the bounds are not covered.",
        "C01",
    ),
    "C02": (
        EXPL,
        "bounded-exhaustive enumeration of synthetic worlds (FASTA+VCF+BAM with known haplotypes) run through the real pipeline",
        "Every world of the alphabet (variant type vectors over SNV/MNP/INS/DEL x haplotype patterns x read sets incl. gapped and "
        "paired reads x margins around the re-alignment overhang x tag/only-snvs/reference/sample/chromosome options, depth above the "
        "coverage cap, clipped alignments, several BAM files with colliding read names, unphased genotypes spelled 1/0, extended CIGAR with uneven coverage) is phased by run_whatshap in-process; every phase set must equal the true haplotypes or their exchange.",
        "Trusted: the synthesiser (reads are exact copies of the haplotypes, indels placed at the VCF position), the independent text VCF "
        "decoder. Well-separated variants, repeat-free reference.",
        "C02",
    ),
    "C19": (
        EXPL,
        "complete enumeration of genotypes / string pairs against the VCF-specification ordering and full-matrix Levenshtein",
        "All allele multisets up to ploidy 6 x 6 alleles (all pairs compared) plus complete slices up to the hard limits (ploidy 14, "
        "allele 15); every history of <= 4 (5) observations / state restores / copies on ONE Genotype object against the model 'the object is the genotype last restored into it'; "
        "all ordered string pairs over {A,C} up to length 6 (8) and {A,C,G} up to 3 (5) x every band x str/bytes, calls made in a pair-dependent order.",
        "Trusted: recursive VCF genotype ordering and a textbook Levenshtein matrix (self-tested against hand-computed values).",
        "C19",
    ),
})

CHECKS.update({
    "C06": (EXPL, "complete grid of read placements (type, context, offsets, CIGAR style) run through ReadSetReader.read with and without reference",
        "Every placement of the alphabet (SNV/MNP/INS/DEL of length 1-3, random / homopolymer / dinucleotide context, haplotype, every start and end offset within 14 bases, "
        "M, =/X, soft/hard clips, unrelated indels, reference skips next to / over the variant, reads outside, mate pairs, second variant at distance 1-30, a second LISTED indel of 1-8 bases at every offset "
        "around both ends of the re-alignment window, records with a symbolic ALT next to the variants, two-ALT records read with mav=True, an insertion in front of a variant inside a reference skip, the alignments of a site spread over two files) is "
        "written to a BAM and read once per mode; the recorded allele must never be the other allele, must be absent for non-overlapping reads and must be found where the statement says so.",
        "Trusted: synthesiser places indels at the VCF position on a repeat-free reference; 'fully covers' as defined in DESIGN.md C06. One recorded known finding (known_findings.json, "
        "signature c06:wrong-allele:edit-distance-limit): matched only when an independent unit-cost edit-distance computation on the exactly extracted window favours the other allele too.", "C06"),
    "C07": (EXPL, "bounded-exhaustive enumeration of read multisets x caps x preferred subsets on readselection; traced pipeline runs for the per-family cap",
        "Every multiset of <= 5 reads (subsets of >= 2 of <= 5 positions) x cap 1-3 x bridging x every subset marked preferred (R<=4) x quality levels (R<=3): subset, cap and maximality are "
        "recomputed independently; every multiset of <= 3 long / end-only reads over 200 and 800 variant positions (with and without a read over all of them); plus traced `whatshap phase` runs (single sample, trio, trio with an unsequenced parent phased through a VCF phase input, --merge-reads; depth above the cap) for the total coverage handed to the solver.",
        "Trusted: the span-coverage recount; the trace hook reporting the reads given to the solver.", "C07"),
    "C08": (EXPL, "bounded-exhaustive enumeration of HMM instances against plain forward-backward / full path enumeration in long double",
        "All instances of the layered space (read matrices with >= 2 entries per read, base qualities, prior triples, single/trio/quartet, recombination costs, long tables for the sqrt "
        "column storage) through whatshap.core.GenotypeDPTable, compared to 1e-9 with an independent summation over global bipartitions; GL/GT/GQ consistency of `whatshap genotype` VCFs (also a second record on a coordinate, and two unrelated samples genotyped jointly vs. alone); "
        "determine_genotype + GenotypeVcfWriter on every distribution of a 1/20 (1/40) grid x thresholds (exact ties, zeros, maxima equal to the threshold).",
        "Trusted: native/oracle.cpp genotype_posterior (two modes cross-checked, Python twin, hand-computed triples from the repository's tests).", "C08"),
    "C11": (EXPL, "bounded-exhaustive enumeration of pairs / triples of phasings against the definitions (brute force for minima)",
        "All pairs of phasing patterns (n<=3 complete incl. unphased/homozygous calls, all-phased one/two-block patterns n=4, one-block n=5,7), explicit relabelling slice, triples for "
        "--tsv-multiway, 2-3 files x 1-3 chromosomes (every pairwise row, BED per pair and chromosome, multiway per chromosome), three files at a two-ALT record, genotypes over three ALT alleles, polyploid columns over 0/1/2 through the files, ploidy 3-4 one-block pairs, two polyploid blocks of different size, "
        "function-level slice on compare_block (columns over the alleles 0/1 and 0/1/2): every TSV/BED/longest-block output is recomputed from the definitions.",
        "Trusted: the definitions as coded in c11.py (self-tested: run-length decomposition == brute-force minimum of flips+switches).", "C11"),
    "C12": (EXPL, "bounded-exhaustive enumeration of call-kind sequences against an independent count",
        "All sequences of 13 call kinds (incl. indel and MNP records) up to length 4 (5) x PS/HP x --only-snvs, three interleaved sets over 6-9 variants, two-chromosome files (also interleaved) x --chromosome selections (also named against the file order), "
        "second sample: TSV counts, identities, per-block size statistics, consistency of the block-length statistics, block list, GTF runs, ALL row and the covered-span bound are recomputed from the scenario.",
        "Trusted: independent counts in c12.py. Multi-ALT and duplicate positions are not generated.", "C12"),
    "C13": (MC, "explicit-state BFS over {unphase, phase PS, phase HP} histories on VCF files, every transition executed by the real command",
        "From every base file (all sequences of <= 3 records over 15 call kinds incl. haploid, polyploid, partially missing, GT-less, pre-phased; 1-2 samples; headers with none, one or two ##phasing lines) BFS to depth 3; "
        "invariants on every unphase transition (no phase left, nothing else changed, idempotent, unphase(phase(x)) == unphase(x)).",
        "Trusted: text-level VCF comparison. A failing phase run is a disabled transition.", "C13"),
    "C14": (EXPL, "bounded-exhaustive enumeration of (reads, list, options) against a reference distribution model",
        "All read-name sequences (<= 3 (4) reads over 3 names incl. repeats, zero-length reads) x all haplotype assignments x list formats x BAM/FASTQ(.gz) x ploidy 2-3 (4) x "
        "requested-output subsets x --add-untagged / --discard-unknown-reads / --only-largest-block (three layouts of phase sets over two chromosomes), file names .fastq/.fastq.gz/.fq/.fq.gz, list lines written twice, only the untagged output requested: every output is compared record by record, plus the histogram column sums.",
        "Trusted: the dict-based reference model in c14.py. A repeated list line repeats the same haplotype.", "C14"),
})

CHECKS.update({
    "C03": (EXPL, "bounded-exhaustive enumeration of read/variant incidence structures run through the pipeline; components recomputed from the traced solver reads",
        "Every set of <= 3 read kinds (arbitrary subsets of >= 2 of k <= 5 variants, realised with reference skips / mate pairs) x haplotype assignment x tag, a selection-active slice "
        "(copies + tiny coverage cap), a variant on the first base of the contig, single samples with --include-homozygous, a sample outside the PED file, trio slices with members homozygous at chosen variants, two read-disconnected components, and genotypes the reads contradict under --distrust-genotypes (with / without genetic haplotyping): same PS <=> connected by the reads handed to the "
        "solver (trace hook, cross-checked with --output-read-list), PS = leftmost variant of the component, master-block merge in pedigree mode.",
        "Trusted: the trace hook's list of reads handed to the solver; independent BFS components.", "C03"),
    "C04": (EXPL, "bounded-exhaustive enumeration of record-kind sequences x decoration profiles x option vectors, record-by-record diff of input and output",
        "All sequences of <= 3 (4) record kinds (het SNV/indel/MNP, hom, missing, partial, multi-ALT, symbolic, duplicate position, no-ALT, pre-phased PS/HP also on records the tool never phases and on samples that are not selected) in a 3-sample, 2-3-chromosome VCF (last contig with only unloadable records) "
        "x 5 decoration profiles (ID/QUAL/FILTER/INFO/FORMAT incl. undeclared predefined keys and an undeclared contig) x sample/chromosome/tag/only-snvs/distrust options; the output is "
        "diffed with an independent text reader.",
        "Trusted: text-level comparison (numbers as numbers). Undeclared *non-predefined* keys are refused by whatshap and not generated.", "C04"),
    "C05": (EXPL, "bounded-exhaustive enumeration of family genotype combinations x read support x options through run_whatshap --ped",
        "All 64 (father, mother, child) genotype combinations per variant over {0/0,0/1,1/1,./.} for k<=2 (4096 for k=2; also with a PED record naming an absent individual first and with an unrelated sample with missing genotypes), a restricted k=3 space with a paternal or maternal recombination (list entries against the traced transmission vector), "
        "two-child quartets (also a recombination in one child only, both PED record orders), --tag=HP with genotypes spelled 1/0; read support none/child/parents/all; uniform and map-based recombination costs; with and without genetic haplotyping. Judged: paternal|maternal order, "
        "one fixed reading of the traced transmission bits, conflicts/missing left unphased, homozygous-parent variants phased without reads.",
        "Trusted: scenario construction of Mendelian-consistent haplotypes; the trace hook's transmission vector.", "C05"),
    "C09": (MC, "explicit-state BFS over {phase PS, phase HP, unphase, phase-from-phased-VCF} histories; every transition executed by the real commands",
        "Per base scenario (k<=5 (6) het variants + hom + multi-ALT record, one/two/interleaved blocks, singleton, reads that cover one variant each, all reads from the other sample, 1-2 samples, unsorted GT, foreign PS/HP pre-phasing, a contradicted genotype under --distrust-genotypes) BFS to depth 3; on every "
        "transition: decoded output == what the writer was given (trace), own reader == text decoder, PS vs HP equal, no stale/old phase statement, phase(x) == phase(unphase(x)), phased VCF "
        "as only phase input (one file, split into two files, or written without PS field) reproduces its sets.",
        "Trusted: text decoder of PS/HP (GATK semantics), trace hook. A non-target sample is kept unphased (a PS-phased bystander next to an HP-tagged target is refused by whatshap's reader by design).", "C09"),
    "C10": (EXPL, "bounded-exhaustive enumeration of alignment-kind sequences x VCF designs x options; conservation diff, independent scoring, exchange symmetry by a second run",
        "All sequences of <= 3 (4) alignment kinds (pure / mostly / tied haplotype reads, no-variant reads, mates, supplementary, secondary, duplicate, unmapped placed/unplaced, other "
        "sample, no RG, stale tags, shared BX near and far, unmapped mate of a tagged read, mate on a contig without variants) x 5 phased-VCF designs x options (tag-supplementary, ignore-linked-read, one region, two adjacent regions, regions named against the input order (contigs chr2 / chr10), linked-read cutoff, output threads, no reference, ignore-read-groups); "
        "ploidy 3-4 slice over every heterozygous genotype matrix of three variants.",
        "Trusted: synthesiser, independent scoring (each variant of a read name counted once; 30 per variant), read-cloud model (same barcode within the cutoff) where the clouds are unambiguous; else conservation and symmetry only.", "C10"),
    "C15": (EXPL, "bounded-exhaustive enumeration of polyploid worlds (haplotype matrices up to row order x read tilings x -B x tag) through run_polyphase",
        "Ploidy 2-4 (5-6 thorough), k<=5 variants, all 0/1 matrices with heterozygous columns up to row order (thinned deterministically above a budget), multi-allelic slice, uneven coverage, "
        "coverage gaps, pre-phasing, distrust, two samples, further chromosomes on which nothing can be phased, a second record on the coordinate of a phased one, reads of one haplotype skipping an inner variant: genotype conformance, only heterozygous phased, pass-through, phase sets = disjoint ordered stretches of the read-covered het variants named inside their own stretch.",
        "Trusted: synthesiser; which variants are read-covered is known from the scenario. Matrices beyond the per-shape budget are thinned (stated in the evidence).", "C15"),
    "C16": (MC, "enumeration of schedules: hash seeds until every iteration order of the sample-name set occurred; all job->worker assignments under a controlled pool; thread-count values; repetition",
        "28 subcommand scenarios (incl. polyphase on blocks whose genotype has to be forced, stats on an indexed VCF, --use-ped-samples with changed-genotype lists, polyphase --use-prephasing with one pre-phased sample among three, haplotag with barcoded reads tied between two phase sets, haplotag --regions over two chromosomes, inputs using undeclared predefined INFO keys) run in fresh interpreters under PYTHONHASHSEED=0,1,2,... until all n! orders of the name set were realised (measured in the child); polyphase under a "
        "controlled multiprocessing pool for every assignment of the jobs to 2 and 3 workers (up to symmetry) and under the stock Pool; every command twice in one interpreter; polyphase --threads 1/2/3 each in a fresh interpreter; haplotag --output-threads 1/2/4. "
        "All outputs compared record for record with the first run.",
        "Trusted: abstraction of the hash seed to the order of the name sets; htslib's internal writer threads are not owned by the harness.", "C16"),
    "C17": (MC, "pipeline histories phase -> haplotag -> (partial) unphase -> haplotagphase executed by the real commands for every subset of variants left phased",
        "Worlds with k<=4 variants (SNV/INS/DEL/MNP mixes, two-ALT records, uncalled genotypes, a second homozygous sample), one or two phase sets, all covered / one uncovered / one set untagged; for every subset kept phased in haplotagphase's input the output "
        "must carry the original haplotype order and the covering reads' phase set for newly phased variants and leave already phased ones untouched.",
        "Trusted: synthesiser; partial unphase by text edit.", "C17"),
    "C20": (EXPL, "bounded-exhaustive enumeration of (chromosomes x family structures x list options); differential oracle whole run vs. per-chromosome / per-family runs plus trace and VCF diff",
        "1-3 chromosomes x {single, two unrelated, trio, two trios, trio+single} x recombination / genotype-change placements (also at indel records, first variant on the first base) x tag x chromosome selections: read list == traced reads, "
        "changed-genotype list == input/output VCF differences (empty without --distrust-genotypes), recombination entries inside one phase set, every list == union of the lists of separate runs.",
        "Trusted: trace hook; the tool's own criterion for a recombination event (only completeness over chromosomes/families and set membership are judged).", "C20"),
})

PENDING = {}


def main():
    props = [json.loads(l) for l in open(os.path.join(VERIF, "properties.jsonl")) if l.strip()]
    checks = []
    na = []
    for p in props:
        pid = p["id"]
        if pid in CHECKS:
            level, tech, text, note, ref = CHECKS[pid]
            checks.append(
                {
                    "property_id": pid,
                    "quick_cmd": f"./check {pid} --tier quick",
                    "thorough_cmd": f"./check {pid} --tier thorough",
                    "evidence_file": f"evidence/{pid}.json",
                    "replay_cmd_template": f"./check {pid} --replay {{path}}",
                    "engine": "mc",
                    "level_claimed": {"category": level, "text": text, "design_ref": f"DESIGN.md section {ref}"},
                    "level_note": note,
                    "technique": tech,
                }
            )
        else:
            na.append({"property_id": pid, "reason": PENDING.get(pid, "check not built yet (work in progress; see DESIGN.md for the plan)")})
    commits = subprocess.run(
        ["git", "-C", "/repo", "log", "--format=%H %s", "861552b..HEAD"], capture_output=True, text=True
    ).stdout.splitlines()
    hook_commits = [c.split()[0] for c in commits if "verification" in c.lower() and "hook" in c.lower()]
    man = {
        "version": 1,
        "setup_cmd": "/venv/bin/python -m mc.build inplace && make -C native",
        "hooks": {
            "guard": "WHATSHAP_VERIF_TRACE",
            "enable": "environment variable WHATSHAP_VERIF_TRACE=<file> at run time (no build-time switch); ./check sets it itself",
            "baseline_off_cmd": "cd /repo && env -u WHATSHAP_VERIF_TRACE /venv/bin/python -m pytest -ra -q -p no:cacheprovider --timeout=900 --continue-on-collection-errors",
            "source_commits": hook_commits,
            "add_only": True,
        },
        "engines": [
            {
                "name": "mc",
                "path": "mc/",
                "serves_properties": [c["property_id"] for c in checks],
                "kind_free_text": "hand-written bounded-exhaustive explorers (canonical enumeration of input spaces, explicit-state BFS over "
                "operation histories, enumeration of schedules) that execute the real code rebuilt from /repo's working tree and "
                "compare with independent reference models",
            }
        ],
        "checks": checks,
        "not_applicable": na,
        "notes": "All checks: ./check <ID> [--tier quick|thorough] [--replay FILE]; they rebuild the extension modules from /repo's "
        "working tree into a content-addressed cache under /var/tmp/whatshap-verif-cache and never write into /repo.",
    }
    with open(os.path.join(VERIF, "MANIFEST.json"), "w") as f:
        json.dump(man, f, indent=1)
        f.write("\n")
    r = subprocess.run(
        ["python3-vt", "-c", "import json,jsonschema; jsonschema.validate(json.load(open('MANIFEST.json')), json.load(open('/root/.vp/MANIFEST.schema.json'))); print('MANIFEST valid')"],
        cwd=VERIF,
    )
    return r.returncode


if __name__ == "__main__":
    raise SystemExit(main())
