#!/venv/bin/python
"""Regenerates /verif/MANIFEST.json from the table below (single source of truth)."""
import json
import os
import subprocess

VERIF = os.path.dirname(os.path.dirname(os.path.abspath(__file__)))

EXPL = "exploration"
MC = "model_checking"

# id -> (level, technique, text, note, design_ref)
CHECKS = {
    "C18": (
        MC,
        "explicit-state BFS to closure over the exact internal state of the real objects, reference-model comparison on every transition",
        "Every reachable internal state of PriorityQueue (heap array + positions map, via the guarded _verif_state hook) and of "
        "ComponentFinder (parent forest) over small item/score/value domains is visited; every enabled operation is executed by "
        "the real code and all observers are compared with a dict / set-partition model. Closure of the state graph makes the "
        "history length unbounded.",
        "Trusted: the reference models (dict, set partition), the _verif_state hook reporting the true internal state. Domains are "
        "bounded (<= 6 items, <= 7 scores, <= 6 values).",
        "C18",
    ),
}

CHECKS.update({
    "C01": (
        EXPL,
        "bounded-exhaustive enumeration of PedMEC instances executed on the real solver, judged by a brute-force reference",
        "All instances of a layered space (single individual, two unrelated individuals, trio, quartet; all read matrices up to "
        "R*C <= 12 over {0,1,absent} in every sorted order; weights, all genotype vectors, phred likelihood triples, recombination "
        "costs, explicit position lists with uncovered columns, long tables that exercise sqrt checkpointing) are run through "
        "whatshap.core.PedigreeDPTable; reported cost, returned bipartition + transmission vector and every unflagged allele are "
        "compared with an independent brute force over all bipartitions, transmission paths and allele assignments.",
        "Trusted: native/oracle.cpp and its pure-Python twin (cross-checked at start-up), small value sets for weights/likelihoods/costs. "
        "Small-scope: instances beyond the bounds are not covered.",
        "C01",
    ),
    "C02": (
        EXPL,
        "bounded-exhaustive enumeration of synthetic worlds (FASTA+VCF+BAM with known haplotypes) run through the real pipeline",
        "Every world of the alphabet (variant type vectors over SNV/MNP/INS/DEL x haplotype patterns x read sets incl. gapped and "
        "paired reads x margins around the re-alignment overhang x tag/only-snvs/reference/sample/chromosome options, depth above the "
        "coverage cap) is phased by run_whatshap in-process; every phase set must equal the true haplotypes or their exchange.",
        "Trusted: the synthesiser (reads are exact copies of the haplotypes, indels placed at the VCF position), the independent text VCF "
        "decoder. Well-separated variants, repeat-free reference.",
        "C02",
    ),
    "C19": (
        EXPL,
        "complete enumeration of genotypes / string pairs against the VCF-specification ordering and full-matrix Levenshtein",
        "All allele multisets up to ploidy 6 x 6 alleles (all pairs compared) plus complete slices up to the hard limits (ploidy 14, "
        "allele 15); all ordered string pairs over {A,C} up to length 6 (8) and {A,C,G} up to 3 (5) x every band x str/bytes.",
        "Trusted: recursive VCF genotype ordering and a textbook Levenshtein matrix (self-tested against hand-computed values).",
        "C19",
    ),
})

PENDING = {}


def main():
    props = [json.loads(l) for l in open(os.path.join(VERIF, "properties.jsonl")) if l.strip()]
    checks = []
    na = []
    for p in props:
        pid = p["id"]
        if pid in CHECKS:
            level, tech, text, note, ref = CHECKS[pid]
            checks.append(
                {
                    "property_id": pid,
                    "quick_cmd": f"./check {pid} --tier quick",
                    "thorough_cmd": f"./check {pid} --tier thorough",
                    "evidence_file": f"evidence/{pid}.json",
                    "replay_cmd_template": f"./check {pid} --replay {{path}}",
                    "engine": "mc",
                    "level_claimed": {"category": level, "text": text, "design_ref": f"DESIGN.md section {ref}"},
                    "level_note": note,
                    "technique": tech,
                }
            )
        else:
            na.append({"property_id": pid, "reason": PENDING.get(pid, "check not built yet (work in progress; see DESIGN.md for the plan)")})
    commits = subprocess.run(
        ["git", "-C", "/repo", "log", "--format=%H %s", "861552b..HEAD"], capture_output=True, text=True
    ).stdout.splitlines()
    hook_commits = [c.split()[0] for c in commits if "verification" in c.lower() and "hook" in c.lower()]
    man = {
        "version": 1,
        "setup_cmd": "/venv/bin/python -m mc.build inplace && make -C native",
        "hooks": {
            "guard": "WHATSHAP_VERIF_TRACE",
            "enable": "environment variable WHATSHAP_VERIF_TRACE=<file> at run time (no build-time switch); ./check sets it itself",
            "baseline_off_cmd": "cd /repo && env -u WHATSHAP_VERIF_TRACE /venv/bin/python -m pytest -ra -q -p no:cacheprovider --timeout=900 --continue-on-collection-errors",
            "source_commits": hook_commits,
            "add_only": True,
        },
        "engines": [
            {
                "name": "mc",
                "path": "mc/",
                "serves_properties": [c["property_id"] for c in checks],
                "kind_free_text": "hand-written bounded-exhaustive explorers (canonical enumeration of input spaces, explicit-state BFS over "
                "operation histories, enumeration of schedules) that execute the real code rebuilt from /repo's working tree and "
                "compare with independent reference models",
            }
        ],
        "checks": checks,
        "not_applicable": na,
        "notes": "All checks: ./check <ID> [--tier quick|thorough] [--replay FILE]; they rebuild the extension modules from /repo's "
        "working tree into a content-addressed cache under /var/tmp/whatshap-verif-cache and never write into /repo.",
    }
    with open(os.path.join(VERIF, "MANIFEST.json"), "w") as f:
        json.dump(man, f, indent=1)
        f.write("\n")
    r = subprocess.run(
        ["python3-vt", "-c", "import json,jsonschema; jsonschema.validate(json.load(open('MANIFEST.json')), json.load(open('/root/.vp/MANIFEST.schema.json'))); print('MANIFEST valid')"],
        cwd=VERIF,
    )
    return r.returncode


if __name__ == "__main__":
    raise SystemExit(main())
