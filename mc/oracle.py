"""Reference models: ctypes wrappers around native/liboracle.so and pure-Python twins.

A PedMEC instance is a dict:
  ped      "single" | "pair" (two unrelated) | "trio" | "quartet"
  C        number of columns
  reads    list of [individual, [allele per column: -1 blank | 0 | 1], [weight per column]]
  distrust bool
  gt       [individual][column] -> genotype index 0/1/2        (trusted mode)
  gl       [individual][column] -> [phred0, phred1, phred2]    (distrust mode)
  rc       [column] -> recombination cost
"""
import ctypes
import itertools
import os
import subprocess
from pathlib import Path

HERE = Path(__file__).resolve().parent.parent
LIB = HERE / "native" / "liboracle.so"

PEDS = {
    "single": (1, []),
    "pair": (2, []),
    "trio": (3, [(0, 1, 2)]),
    "quartet": (4, [(0, 1, 2), (0, 1, 3)]),
    # father, mother and five children: 4^5 transmission values, bits 8 and 9 belong to the fifth trio
    "five-children": (7, [(0, 1, 2), (0, 1, 3), (0, 1, 4), (0, 1, 5), (0, 1, 6)]),
}

_lib = None


def lib():
    global _lib
    if _lib is None:
        src = HERE / "native" / "oracle.cpp"
        if not LIB.exists() or LIB.stat().st_mtime < src.stat().st_mtime:
            subprocess.run(["make", "-C", str(HERE / "native")], check=True, stdout=subprocess.DEVNULL)
        _lib = ctypes.CDLL(str(LIB))
        _lib.pedmec_min.restype = ctypes.c_int64
        _lib.pedmec_eval.restype = ctypes.c_int64
        _lib.levenshtein.restype = ctypes.c_int
        assert _lib.oracle_version() == 4
    return _lib


def _arr(xs):
    return (ctypes.c_int * max(1, len(xs)))(*xs)


class CInst:
    """Flattened instance ready for the C oracle."""

    __slots__ = ("n_ind", "n_trios", "trios", "R", "C", "read_ind", "allele", "weight", "active", "distrust", "gt", "gl", "rc")

    def __init__(self, inst):
        n_ind, trios = PEDS[inst["ped"]]
        self.n_ind = n_ind
        self.n_trios = len(trios)
        self.trios = _arr([x for t in trios for x in t])
        reads = inst["reads"]
        self.R = len(reads)
        self.C = C = inst["C"]
        self.read_ind = _arr([r[0] for r in reads])
        self.allele = _arr([a for r in reads for a in r[1]])
        self.weight = _arr([w for r in reads for w in r[2]])
        self.active = _arr([0] * (self.R * C))
        self.distrust = 1 if inst["distrust"] else 0
        if inst["distrust"]:
            self.gl = _arr([x for i in range(n_ind) for c in range(C) for x in inst["gl"][i][c]])
            self.gt = _arr([0])
        else:
            self.gt = _arr([inst["gt"][i][c] for i in range(n_ind) for c in range(C)])
            self.gl = _arr([0])
        self.rc = _arr(list(inst["rc"]))

    def _args(self):
        return (self.n_ind, self.n_trios, self.trios, self.R, self.C, self.read_ind, self.allele, self.weight, self.active, self.distrust, self.gt, self.gl, self.rc)

    def min(self, mode=1):
        return lib().pedmec_min(*self._args(), mode)

    def eval(self, conv, part_bits, tvec, want_masks=True):
        masks = (ctypes.c_int * max(1, self.C * self.n_ind * 2))() if want_masks else None
        cost = lib().pedmec_eval(*self._args(), conv, part_bits, _arr(list(tvec)), masks)
        return cost, (list(masks) if want_masks else None)


# ------------------------------------------------------------------ pure-Python twin
def _hap_partitions(ped, t, conv=0):
    n_ind, trios = PEDS[ped]
    children = {c for _, _, c in trios}
    out = {}
    p = 0
    for i in range(n_ind):
        if i not in children:
            out[i] = (p, p + 1)
            p += 2
    for ti, (f, m, c) in enumerate(trios):
        fb = (t >> (2 * ti + (1 if conv & 1 else 0))) & 1
        mb = (t >> (2 * ti + (0 if conv & 1 else 1))) & 1
        fh = fb if conv & 2 else 1 - fb
        mh = mb if conv & 2 else 1 - mb
        out[c] = (out[f][fh], out[m][mh])
    return out, p


def py_col_cost(inst, part, c, t, conv=0):
    """(cost or None, masks) for one column; part = list of 0/1 per read."""
    hp, P = _hap_partitions(inst["ped"], t, conv)
    n_ind = PEDS[inst["ped"]][0]
    best = None
    best_asgs = []
    for asg in itertools.product((0, 1), repeat=P):
        cost = 0
        ok = True
        for i in range(n_ind):
            g = asg[hp[i][0]] + asg[hp[i][1]]
            if inst["distrust"]:
                cost += inst["gl"][i][c][g]
            elif g != inst["gt"][i][c]:
                ok = False
                break
        if not ok:
            continue
        for r, (ind, alleles, weights) in enumerate(inst["reads"]):
            a = alleles[c]
            if a < 0:
                continue
            if asg[hp[ind][part[r]]] != a:
                cost += weights[c]
        if best is None or cost < best:
            best, best_asgs = cost, [asg]
        elif cost == best:
            best_asgs.append(asg)
    masks = []
    for i in range(n_ind):
        for h in (0, 1):
            m = 0
            for asg in best_asgs:
                m |= 1 << asg[hp[i][h]]
            masks.append(m)
    return best, masks


def py_pedmec_min(inst):
    """Explicit enumeration of every bipartition and every transmission path."""
    n_ind, trios = PEDS[inst["ped"]]
    T = 4 ** len(trios)
    R, C = len(inst["reads"]), inst["C"]
    best = None
    if C == 0:
        return 0
    for part in itertools.product((0, 1), repeat=R):
        cc = [[py_col_cost(inst, part, c, t)[0] for t in range(T)] for c in range(C)]
        for path in itertools.product(range(T), repeat=C):
            cost = 0
            for c in range(C):
                x = cc[c][path[c]]
                if x is None:
                    cost = None
                    break
                cost += x
                if c > 0:
                    cost += bin(path[c] ^ path[c - 1]).count("1") * inst["rc"][c]
            if cost is not None and (best is None or cost < best):
                best = cost
    return -1 if best is None else best


def py_pedmec_eval(inst, conv, part, tvec):
    cost = 0
    masks = []
    for c in range(inst["C"]):
        x, m = py_col_cost(inst, part, c, tvec[c], conv)
        if x is None:
            return -1, None
        cost += x
        masks += m
        if c > 0:
            cost += bin(tvec[c] ^ tvec[c - 1]).count("1") * inst["rc"][c]
    return cost, masks


def c_genotype_posterior(inst, mode=1):
    """inst as for PedMEC, with inst["prior"][individual][column] = [p0, p1, p2] and weights = phred
    base qualities.  Returns out[column][individual] = [p0, p1, p2]."""
    n_ind, trios = PEDS[inst["ped"]]
    reads = inst["reads"]
    R, C = len(reads), inst["C"]
    prior = (ctypes.c_double * max(1, n_ind * C * 3))(*[x for i in range(n_ind) for c in range(C) for x in inst["prior"][i][c]])
    out = (ctypes.c_double * max(1, C * n_ind * 3))()
    lib().genotype_posterior(
        n_ind, len(trios), _arr([x for t in trios for x in t]), R, C, _arr([r[0] for r in reads]),
        _arr([a for r in reads for a in r[1]]), _arr([w for r in reads for w in r[2]]), prior, _arr(list(inst["rc"])), mode, out,
    )
    return [[[out[(c * n_ind + i) * 3 + g] for g in range(3)] for i in range(n_ind)] for c in range(C)]


def py_genotype_posterior(inst):
    """Pure-Python twin: explicit sum over all global bipartitions, transmission paths and allele paths."""
    from fractions import Fraction  # noqa: F401  (floats are used; Fraction kept for debugging)

    n_ind, trios = PEDS[inst["ped"]]
    T = 4 ** len(trios)
    reads = inst["reads"]
    R, C = len(reads), inst["C"]
    acc = [[[0.0] * 3 for _ in range(n_ind)] for _ in range(C)]
    # per (c, t): assignment probabilities
    pa = {}
    hps = {}
    for t in range(T):
        hp, P = _hap_partitions(inst["ped"], t)
        hps[t] = hp
        for c in range(C):
            probs = {}
            counts = {}
            for a in itertools.product((0, 1), repeat=P):
                gv = tuple(a[hp[i][0]] + a[hp[i][1]] for i in range(n_ind))
                p = 1.0
                for i in range(n_ind):
                    p *= inst["prior"][i][c][gv[i]]
                probs[a] = (p, gv)
                counts[gv] = counts.get(gv, 0) + 1
            s = sum(p / counts[gv] for p, gv in probs.values())
            pa[(c, t)] = {a: (p / counts[gv] / s, gv) for a, (p, gv) in probs.items()}
    for part in itertools.product((0, 1), repeat=R):
        for tpath in itertools.product(range(T), repeat=C):
            tw = 1.0
            for c in range(1, C):
                r = 10 ** (-inst["rc"][c] / 10)
                x = bin(tpath[c] ^ tpath[c - 1]).count("1")
                tw *= r**x * (1 - r) ** (2 * len(trios) - x)
            for apath in itertools.product(*[list(pa[(c, tpath[c])].keys()) for c in range(C)]):
                w = tw
                for c in range(C):
                    p, gv = pa[(c, tpath[c])][apath[c]]
                    w *= p
                    hp = hps[tpath[c]]
                    for r_, (ind, alleles, weights) in enumerate(reads):
                        al = alleles[c]
                        if al < 0:
                            continue
                        eps = 10 ** (-weights[c] / 10)
                        w *= (1 - eps) if apath[c][hp[ind][part[r_]]] == al else eps
                for c in range(C):
                    gv = pa[(c, tpath[c])][apath[c]][1]
                    for i in range(n_ind):
                        acc[c][i][gv[i]] += w
    for c in range(C):
        for i in range(n_ind):
            s = sum(acc[c][i])
            acc[c][i] = [x / s for x in acc[c][i]]
    return acc


def c_levenshtein(s, t):
    sb, tb = s.encode(), t.encode()
    return lib().levenshtein(sb, len(sb), tb, len(tb))
