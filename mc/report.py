"""Verdicts, replay artefacts, known findings and evidence files."""
import hashlib
import json
import os
import sys
import time
from pathlib import Path

VERIF = Path(__file__).resolve().parent.parent
EVIDENCE_SCHEMA = Path("/root/.vp/EVIDENCE.schema.json")


def _load_known():
    p = VERIF / "known_findings.json"
    if not p.exists():
        return []
    return json.loads(p.read_text())["findings"]


class Report:
    def __init__(self, pid, tier, seed, level):
        self.pid = pid
        self.tier = tier
        self.seed = seed
        self.level = level
        self.t0 = time.time()
        self.violations = []  # dicts with at least: clause, signature, instance, detail
        self.coverage = {}
        self.assumptions = []
        self.known = [k for k in _load_known() if k["property"] == pid]
        self.notes = []

    # ---- violations -------------------------------------------------------------------
    def add_violations(self, vs):
        self.violations.extend(vs)

    def add_crashes(self, crashes, space_name):
        for c in crashes:
            self.violations.append(
                {
                    "clause": "crash",
                    "signature": "crash:" + space_name,
                    "instance": c["instance"],
                    "space": space_name,
                    "detail": f"worker process died (wait status {c['status']}) while executing this instance",
                }
            )

    def _write_replay(self, v):
        d = Path(os.environ.get("VERIF_REPLAY_DIR", VERIF / "replays")) / self.pid
        d.mkdir(parents=True, exist_ok=True)
        body = json.dumps(v, sort_keys=True, default=str)
        name = hashlib.sha1(body.encode()).hexdigest()[:12] + ".json"
        (d / name).write_text(json.dumps(v, indent=1, sort_keys=True, default=str))
        return d / name

    def finish(self, exit_process=True):
        """Classify, print, write evidence, exit."""
        known_active = {k["signature"]: k for k in self.known if k.get("status", "known") == "known"}
        new, matched = [], {}
        for v in self.violations:
            sig = v.get("signature", "")
            if sig in known_active:
                matched.setdefault(sig, []).append(v)
            else:
                new.append(v)
        for sig, k in known_active.items():
            if sig in matched:
                print(f"KNOWN-FINDING: property={self.pid} {k['what']} [{len(matched[sig])} case(s) in this run, signature {sig}]")
            else:
                # listed but not observed in this run's space: still print (it is a listed finding)
                print(f"KNOWN-FINDING: property={self.pid} {k['what']} [not reached by this run's space, signature {sig}]")
        seen_sig = set()
        rc = 0
        for v in new:
            sig = v.get("signature", "")
            if sig in seen_sig and len(seen_sig) > 0:
                continue
            seen_sig.add(sig)
            path = self._write_replay(v)
            print(f"VIOLATION property={self.pid} replay={path}")
            print(f"  clause={v.get('clause')} signature={sig} detail={str(v.get('detail'))[:600]}")
            rc = 1
            if len(seen_sig) >= 10:
                break
        cov = dict(self.coverage)
        cov.setdefault("exhaustive", True)
        ev = {
            "property_id": self.pid,
            "tier": self.tier,
            "seed": self.seed,
            "level": self.level,
            "coverage": cov,
            "assumptions": self.assumptions,
            "wall_s": round(time.time() - self.t0, 2),
            "violations": len(new),
            "known_findings_matched": {s: len(m) for s, m in matched.items()},
            "notes": self.notes,
        }
        # (development runs against scratch worktrees redirect their evidence elsewhere)
        out = Path(os.environ.get("VERIF_EVIDENCE_DIR", VERIF / "evidence")) / f"{self.pid}.json"
        out.parent.mkdir(parents=True, exist_ok=True)
        out.write_text(json.dumps(ev, indent=1, default=str) + "\n")
        try:
            _mini_validate(ev)
            import subprocess

            r = subprocess.run(
                [
                    "python3-vt",
                    "-c",
                    "import json,sys,jsonschema; jsonschema.validate(json.load(open(sys.argv[1])), json.load(open(sys.argv[2])))",
                    str(out),
                    str(EVIDENCE_SCHEMA),
                ],
                capture_output=True,
                text=True,
            )
            if r.returncode != 0 and "No such file" not in r.stderr and EVIDENCE_SCHEMA.exists():
                raise ValueError(r.stderr[-800:])
        except FileNotFoundError:
            pass  # python3-vt not on PATH: the built-in mini validation above already ran
        except Exception as e:  # schema violation
            print(f"evidence file does not validate: {e}", file=sys.stderr)
            rc = 2 if rc == 0 else rc
        print(
            f"[{self.pid}] tier={self.tier} seed={self.seed} evaluations={cov.get('evaluations')} "
            f"nontrivial={cov.get('distinct_nontrivial')} states={cov.get('states')} "
            f"transitions={cov.get('transitions')} new_violations={len(new)} "
            f"known_matched={sum(len(m) for m in matched.values())} wall={ev['wall_s']}s -> exit {rc}"
        )
        if exit_process:
            sys.stdout.flush()
            sys.exit(rc)
        return rc


def _mini_validate(ev):
    for k in ("property_id", "tier", "seed", "level", "coverage", "wall_s"):
        assert k in ev
    cov = ev["coverage"]
    if ev["level"] in ("exploration", "fault_enumeration"):
        assert cov["evaluations"] >= 1 and cov["distinct_nontrivial"] >= 2 and cov["samples"]
    if ev["level"] == "model_checking":
        assert cov["states"] >= 1 and cov["transitions"] >= 1 and cov["samples"]
