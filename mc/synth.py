"""Scenario synthesiser: FASTA / VCF / BAM / PED files with ground truth known by construction,
and an independent line-oriented VCF reader (no pysam) for judging outputs."""
import gzip
import os
import random
import shutil
import tempfile

import pysam

# ----------------------------------------------------------------------------- scratch dirs


class Scratch:
    """Private scratch directory under /dev/shm (fallback /var/tmp), removed on close."""

    def __init__(self, prefix="mcs"):
        base = "/dev/shm" if os.path.isdir("/dev/shm") and os.access("/dev/shm", os.W_OK) else "/var/tmp"
        self.path = tempfile.mkdtemp(prefix=prefix, dir=base)
        self._n = 0

    def file(self, suffix):
        self._n += 1
        return os.path.join(self.path, f"f{self._n}{suffix}")

    def sub(self, name):
        p = os.path.join(self.path, name)
        os.makedirs(p, exist_ok=True)
        return p

    def close(self):
        shutil.rmtree(self.path, ignore_errors=True)

    def __enter__(self):
        return self

    def __exit__(self, *a):
        self.close()


# ----------------------------------------------------------------------------- reference


def make_reference(seed, length, max_run=2):
    """Pseudo-random DNA without homopolymer runs longer than max_run and without immediate
    dinucleotide repeats (so that indels placed in it are not shiftable unless a scenario
    deliberately builds a repeat)."""
    rnd = random.Random(seed)
    s = []
    while len(s) < length:
        b = rnd.choice("ACGT")
        if len(s) >= max_run and all(x == b for x in s[-max_run:]):
            continue
        if len(s) >= 3 and s[-3] == s[-1] and s[-2] == b:
            continue  # would create XYXY
        s.append(b)
    return "".join(s)


def write_fasta(path, seqs, width=60):
    """seqs: list of (name, sequence).  Also writes the .fai index."""
    fai = []
    with open(path, "w") as f:
        off = 0
        for name, seq in seqs:
            hdr = f">{name}\n"
            f.write(hdr)
            off += len(hdr)
            fai.append((name, len(seq), off, width, width + 1))
            for i in range(0, len(seq), width):
                line = seq[i : i + width] + "\n"
                f.write(line)
                off += len(line)
    with open(path + ".fai", "w") as f:
        for rec in fai:
            f.write("\t".join(map(str, rec)) + "\n")
    return path


def make_unshiftable(seq, specs):
    """Adjust the reference so that every deletion spec (pos, "DEL", L) is not shiftable:
    the last deleted base differs from the anchor and the base after the deletion differs
    from the first deleted base.  (Insertions are made unshiftable by make_variant.)
    Also keeps the base after an insertion anchor different from the anchor for tidy windows."""
    s = list(seq)
    for pos, kind, L in specs:
        if kind != "DEL":
            continue
        last, after = pos + L, pos + 1 + L
        if s[last] == s[pos]:
            for b in "ACGT":
                if b != s[pos] and b != s[last - 1] and (after >= len(s) or b != s[after]):
                    s[last] = b
                    break
        if s[after] == s[pos + 1]:
            for b in "ACGT":
                if b != s[pos + 1] and b != s[last] and (after + 1 >= len(s) or b != s[after + 1]):
                    s[after] = b
                    break
        assert s[last] != s[pos] and s[after] != s[pos + 1]
    return "".join(s)


def other_base(b, k=1):
    order = "ACGT"
    return order[(order.index(b) + k) % 4]


# ----------------------------------------------------------------------------- variants


class Var:
    """A VCF variant on the reference: pos is 0-based, ref/alts as written in the VCF."""

    __slots__ = ("pos", "ref", "alts", "kind")

    def __init__(self, pos, ref, alts, kind="SNV"):
        self.pos, self.ref, self.alts, self.kind = pos, ref, list(alts), kind

    def allele(self, i):
        return self.ref if i == 0 else self.alts[i - 1]

    def __repr__(self):
        return f"Var({self.pos},{self.ref}>{','.join(self.alts)})"


def make_variant(refseq, pos, kind, length=1, k=1):
    """Build a variant of the given kind at 0-based position pos of refseq.
    kinds: SNV, MNP (length bases), INS (length inserted bases after the anchor base at pos),
    DEL (length deleted bases after the anchor base at pos)."""
    if kind == "SNV":
        return Var(pos, refseq[pos], [other_base(refseq[pos], k)], kind)
    if kind == "MNP":
        ref = refseq[pos : pos + length]
        return Var(pos, ref, ["".join(other_base(b, k) for b in ref)], kind)
    if kind == "INS":
        anchor = refseq[pos]
        nxt = refseq[pos + 1]
        ins = []
        # inserted bases chosen so that the insertion cannot be shifted: first inserted base
        # differs from the base after the anchor, last inserted base differs from the anchor
        for i in range(length):
            b = other_base(nxt if i == 0 else ins[-1], k)
            if i == length - 1 and b == anchor:
                b = other_base(b, 1)
                if i == 0 and b == nxt:
                    b = other_base(b, 1)
            ins.append(b)
        return Var(pos, anchor, [anchor + "".join(ins)], kind)
    if kind == "DEL":
        ref = refseq[pos : pos + 1 + length]
        return Var(pos, ref, [ref[0]], kind)
    raise ValueError(kind)


def hap_read(refseq, variants, alleles, start, end, style="M"):
    """Sequence and CIGAR of an error-free read that copies the haplotype carrying
    alleles[i] at variants[i] over the reference interval [start, end).

    Indels are placed exactly at the VCF position (after the anchor base).  A variant whose
    footprint is not fully inside [start, end) is taken as reference... (callers choose
    intervals so that footprints are inside or outside).  Returns (seq, cigartuples).
    style "M": matches as M;  "=X": matches as '=' and mismatches as 'X'."""
    seq = []
    ops = []  # list of [op, len]

    def add(op, n):
        if n <= 0:
            return
        if ops and ops[-1][0] == op:
            ops[-1][1] += n
        else:
            ops.append([op, n])

    def add_match(refpiece, qpiece):
        for r, q in zip(refpiece, qpiece):
            if style == "=X":
                add(7 if r == q else 8, 1)
            else:
                add(0, 1)
        seq.append(qpiece)

    p = start
    for v, a in sorted(zip(variants, alleles), key=lambda x: x[0].pos):
        vend = v.pos + len(v.ref)
        if v.pos < start or vend > end:
            continue
        if v.pos < p:
            raise ValueError("overlapping variants")
        add_match(refseq[p : v.pos], refseq[p : v.pos])
        al = v.allele(a)
        if len(al) == len(v.ref):
            add_match(v.ref, al)
        elif len(al) > len(v.ref):  # insertion: anchor(s) match, rest inserted
            add_match(v.ref, al[: len(v.ref)])
            seq.append(al[len(v.ref) :])
            add(1, len(al) - len(v.ref))
        else:  # deletion
            add_match(v.ref[: len(al)], al)
            add(2, len(v.ref) - len(al))
        p = vend
    add_match(refseq[p:end], refseq[p:end])
    return "".join(seq), [tuple(o) for o in ops]


# ----------------------------------------------------------------------------- BAM


def write_bam(path, refs, alignments, read_groups=None, sort=True, index=True, fmt="bam", reference=None):
    """refs: list of (name, length); read_groups: list of dicts with ID, SM (optional);
    alignments: list of dicts:
      name, chrom (None = unmapped), start, cigar (list of tuples) , seq, qual (int | list | None),
      flag (extra bits), mapq, rg, tags (list of (tag, value[, type])), mate: dict(chrom,start) optional
    """
    header = {"HD": {"VN": "1.6", "SO": "coordinate" if sort else "unsorted"}, "SQ": [{"SN": n, "LN": l} for n, l in refs]}
    if read_groups:
        header["RG"] = [dict(rg) for rg in read_groups]
    hdr = pysam.AlignmentHeader.from_dict(header)
    tid = {n: i for i, (n, _) in enumerate(refs)}
    segs = []
    for k, a in enumerate(alignments):
        s = pysam.AlignedSegment(hdr)
        s.query_name = a["name"]
        flag = a.get("flag", 0)
        if a.get("chrom") is None:
            flag |= 4
            s.reference_id = tid[a["pos_chrom"]] if a.get("pos_chrom") else -1
            s.reference_start = a.get("start", -1) if a.get("pos_chrom") else -1
            s.mapping_quality = 0
        else:
            s.reference_id = tid[a["chrom"]]
            s.reference_start = a["start"]
            s.mapping_quality = a.get("mapq", 60)
            s.cigartuples = a["cigar"]
        s.flag = flag
        seq = a.get("seq")
        if seq is not None:
            s.query_sequence = seq
            q = a.get("qual", 30)
            if q is not None:
                s.query_qualities = pysam.qualitystring_to_array("".join(chr(33 + x) for x in (q if isinstance(q, list) else [q] * len(seq))))
        m = a.get("mate")
        if m:
            s.next_reference_id = tid[m["chrom"]]
            s.next_reference_start = m["start"]
        else:
            s.next_reference_id = -1
            s.next_reference_start = -1
        tags = []
        if a.get("rg") is not None:
            tags.append(("RG", a["rg"], "Z"))
        for t in a.get("tags", []):
            tags.append(tuple(t))
        if tags:
            s.set_tags(tags)
        segs.append((k, s))
    if sort:
        segs.sort(key=lambda ks: ((ks[1].reference_id if ks[1].reference_id >= 0 else 1 << 30), ks[1].reference_start, ks[0]))
    mode = "wb" if fmt == "bam" else "wc"
    kw = {}
    if fmt == "cram" and reference:
        kw["reference_filename"] = reference
    with pysam.AlignmentFile(path, mode, header=hdr, **kw) as f:
        for _, s in segs:
            f.write(s)
    if index and sort:
        pysam.index(path)
    return [k for k, _ in segs]


def read_bam(path):
    """All records of a BAM as plain dicts (independent of whatshap.bam)."""
    out = []
    with pysam.AlignmentFile(path, check_sq=False) as f:
        for s in f.fetch(until_eof=True):
            out.append(
                {
                    "name": s.query_name,
                    "flag": s.flag,
                    "tid": s.reference_id,
                    "start": s.reference_start,
                    "mapq": s.mapping_quality,
                    "cigar": s.cigarstring,
                    "mtid": s.next_reference_id,
                    "mstart": s.next_reference_start,
                    "tlen": s.template_length,
                    "seq": s.query_sequence,
                    "qual": None if s.query_qualities is None else list(s.query_qualities),
                    # tags in file order, with their value types (A, Z, H, i/C/..., f, B)
                    "tags": [(t, v if not hasattr(v, "tolist") else tuple(v.tolist()), ty) for t, v, ty in s.get_tags(with_value_type=True)],
                }
            )
    return out


# ----------------------------------------------------------------------------- VCF (text)


class VcfText:
    """Plain-text VCF builder."""

    def __init__(self, samples, contigs=None, formats=None, infos=None, filters=None, extra_header=None, fileformat="VCFv4.2"):
        self.samples = list(samples)
        self.header = [f"##fileformat={fileformat}"]
        for f in filters or []:
            self.header.append(f'##FILTER=<ID={f},Description="filter {f}">')
        for i in infos or []:
            self.header.append(i if i.startswith("##") else INFO_LINES[i])
        for f in formats or ["GT"]:
            self.header.append(f if f.startswith("##") else FORMAT_LINES[f])
        for c in contigs or []:
            if isinstance(c, tuple):
                self.header.append(f"##contig=<ID={c[0]},length={c[1]}>")
            else:
                self.header.append(f"##contig=<ID={c}>")
        for e in extra_header or []:
            self.header.append(e)
        self.records = []

    def add(self, chrom, pos0, ref, alt, calls, id=".", qual=".", filt=".", info=".", fmt=None):
        """calls: list (one per sample) of strings (already formatted per FORMAT) or dicts key->str"""
        if fmt is None:
            fmt = ["GT"]
        cols = []
        for c in calls:
            if isinstance(c, dict):
                vals = [str(c.get(k, ".")) for k in fmt]
                # trailing missing values may be dropped per spec; keep them for fidelity
                cols.append(":".join(vals))
            else:
                cols.append(c)
        alt_s = ",".join(alt) if isinstance(alt, (list, tuple)) else alt
        self.records.append([chrom, str(pos0 + 1), id, ref, alt_s if alt_s else ".", str(qual), filt, info, ":".join(fmt)] + cols)

    def text(self):
        lines = list(self.header)
        lines.append("\t".join(["#CHROM", "POS", "ID", "REF", "ALT", "QUAL", "FILTER", "INFO", "FORMAT"] + self.samples))
        for r in self.records:
            lines.append("\t".join(r))
        return "\n".join(lines) + "\n"

    def write(self, path, compress=False):
        if compress or path.endswith(".gz"):
            plain = path[:-3] if path.endswith(".gz") else path
            with open(plain, "w") as f:
                f.write(self.text())
            pysam.tabix_compress(plain, path, force=True)
            os.unlink(plain)
            pysam.tabix_index(path, preset="vcf", force=True)
        else:
            with open(path, "w") as f:
                f.write(self.text())
        return path


FORMAT_LINES = {
    "GT": '##FORMAT=<ID=GT,Number=1,Type=String,Description="Genotype">',
    "PS": '##FORMAT=<ID=PS,Number=1,Type=Integer,Description="Phase set identifier">',
    "HP": '##FORMAT=<ID=HP,Number=.,Type=String,Description="Phasing haplotype identifier">',
    "PQ": '##FORMAT=<ID=PQ,Number=1,Type=Float,Description="Phasing quality">',
    "DP": '##FORMAT=<ID=DP,Number=1,Type=Integer,Description="Read depth">',
    "AD": '##FORMAT=<ID=AD,Number=R,Type=Integer,Description="Allelic depths">',
    "GQ": '##FORMAT=<ID=GQ,Number=1,Type=Integer,Description="Genotype quality">',
    "GL": '##FORMAT=<ID=GL,Number=G,Type=Float,Description="Genotype likelihoods">',
    "PL": '##FORMAT=<ID=PL,Number=G,Type=Integer,Description="Phred-scaled genotype likelihoods">',
    "XS": '##FORMAT=<ID=XS,Number=1,Type=String,Description="Custom string">',
}
INFO_LINES = {
    "DP": '##INFO=<ID=DP,Number=1,Type=Integer,Description="Total depth">',
    "AF": '##INFO=<ID=AF,Number=A,Type=Float,Description="Allele frequency">',
    "DB": '##INFO=<ID=DB,Number=0,Type=Flag,Description="dbSNP membership">',
    "ANN": '##INFO=<ID=ANN,Number=.,Type=String,Description="Annotation list">',
    "END": '##INFO=<ID=END,Number=1,Type=Integer,Description="Stop position of the interval">',
    "SVTYPE": '##INFO=<ID=SVTYPE,Number=1,Type=String,Description="Type of structural variant">',
}


def parse_vcf_text(text):
    import io

    return _parse_vcf_lines(io.StringIO(text))


def parse_vcf(path):
    opener = gzip.open if str(path).endswith(".gz") else open
    with opener(path, "rt") as f:
        return _parse_vcf_lines(f)


def _parse_vcf_lines(f):
    """Independent line-oriented VCF reader.  Returns dict(header=[lines], samples=[...], records=[...]);
    a record is a dict with chrom, pos (1-based int), id, ref, alt (list), qual, filter, info (raw),
    format (list of keys), calls (list of dict key -> raw string; missing trailing keys absent)."""
    header, samples, records = [], [], []
    if True:
        for line in f:
            line = line.rstrip("\n")
            if line.startswith("##"):
                header.append(line)
            elif line.startswith("#"):
                samples = line.split("\t")[9:]
            elif line:
                t = line.split("\t")
                fmt = t[8].split(":") if len(t) > 8 else []
                calls = []
                for c in t[9:]:
                    vals = c.split(":")
                    calls.append({k: vals[i] for i, k in enumerate(fmt) if i < len(vals)})
                records.append(
                    {
                        "chrom": t[0],
                        "pos": int(t[1]),
                        "id": t[2],
                        "ref": t[3],
                        "alt": [] if t[4] == "." else t[4].split(","),
                        "qual": t[5],
                        "filter": t[6],
                        "info": t[7],
                        "format": fmt,
                        "calls": calls,
                        "line": line,
                    }
                )
    return {"header": header, "samples": samples, "records": records}


def gt_parse(gt):
    """'0|1' -> ([0,1], True) ; './.' -> ([None,None], False); '.' -> ([None], False)"""
    if gt is None:
        return None, False
    phased = "|" in gt
    alleles = [None if a == "." else int(a) for a in gt.replace("|", "/").split("/")]
    return alleles, phased


def decode_phase(call):
    """Independent decoder of a call's phase statement (PS or HP encoding).
    Returns None or (block_id, tuple of alleles in haplotype order)."""
    hp = call.get("HP")
    gt, phased = gt_parse(call.get("GT"))
    if hp not in (None, ".", "") and hp.strip("\x00") != "":  # htslib pads a missing string value of another sample with ""
        fields = [x.split("-") for x in hp.split(",")]
        block = int(fields[0][0])
        order = [int(f[1]) - 1 for f in fields]
        if gt is None or len(gt) != len(order):
            return ("HP-malformed", hp)
        # HP lists, for each allele of GT in order, "<block>-<haplotype number>"
        hap_alleles = [None] * len(order)
        for allele, h in zip(gt, order):
            hap_alleles[h] = allele
        return (block, tuple(hap_alleles))
    if phased and gt is not None and None not in gt and len(set(gt)) > 1:
        ps = call.get("PS")
        try:
            block = int(ps) if ps not in (None, ".") else 0
        except ValueError:
            block = ps  # not an integer (e.g. written as a float): kept as text, equal to no position
        return (block, tuple(gt))
    return None


def info_parse(s):
    if s in (".", ""):
        return {}
    d = {}
    for item in s.split(";"):
        if "=" in item:
            k, v = item.split("=", 1)
            d[k] = v
        else:
            d[item] = True
    return d


def num_eq(a, b):
    """compare two VCF scalar strings as numbers when both are numeric"""
    if a == b:
        return True
    try:
        return abs(float(a) - float(b)) <= 1e-6 * max(1.0, abs(float(a)))
    except (TypeError, ValueError):
        return False


def write_ped(path, trios, family="FAM"):
    """trios: list of (child, father, mother)"""
    with open(path, "w") as f:
        for child, father, mother in trios:
            f.write(f"{family} {child} {father} {mother} 0 1\n")
    return path
