"""Sharded, crash-contained exhaustive exploration.

A *space* is a deterministic generator of JSON-able instances.  It is sharded over N forked
worker processes by instance index (idx % N == shard); every worker therefore walks the
whole generator but only executes its own share, so the union of the shards is exactly the
space, whatever N is.  Before an instance is executed its index is written to an mmap'ed
journal; if the worker dies (the C++ cores are built with assertions on, so a broken
invariant aborts the process) the parent records the instance as a crash outcome and
restarts the shard just after it.
"""
import json
import mmap
import os
import pickle
import struct
import sys
import tempfile
import time
import traceback
from collections import Counter

NPROC = int(os.environ.get("VERIF_JOBS", "16"))
MAX_VIOL_PER_SHARD = 40
MAX_SAMPLES_PER_SHARD = 3


class Result:
    """What run_one returns for one instance."""

    __slots__ = ("nontrivial", "outcome", "violations", "indeterminate", "extra", "n", "outcomes")

    def __init__(self, nontrivial=False, outcome=None, violations=None, indeterminate=0, extra=None, n=1, outcomes=None):
        self.nontrivial = nontrivial  # bool, or an int when the instance is a block of n cases
        self.n = n
        self.outcome = outcome
        self.outcomes = outcomes  # optional iterable of outcome keys (blocks)
        self.violations = violations or []
        self.indeterminate = indeterminate
        self.extra = extra  # dict of counters to add up


class ShardStats:
    def __init__(self):
        self.evaluations = 0
        self.nontrivial = 0
        self.outcomes = Counter()
        self.violations = []
        self.nviol = 0
        self.samples = []
        self.indeterminate = 0
        self.extra = Counter()
        self.crashes = []

    def merge(self, o):
        self.evaluations += o.evaluations
        self.nontrivial += o.nontrivial
        self.outcomes.update(o.outcomes)
        self.violations.extend(o.violations)
        self.nviol += o.nviol
        self.samples.extend(o.samples)
        self.indeterminate += o.indeterminate
        self.extra.update(o.extra)
        self.crashes.extend(o.crashes)


def _worker(space, run_one, shard, nshards, resume, journal_path, out_path, setup):
    st = ShardStats()
    fd = os.open(journal_path, os.O_RDWR)
    mm = mmap.mmap(fd, 8)
    if setup is not None:
        setup()
    try:
        for idx, inst in enumerate(space()):
            if idx % nshards != shard or idx < resume:
                continue
            mm[0:8] = struct.pack("<q", idx)
            try:
                r = run_one(inst)
            except Exception as e:  # noqa: the code under test may raise anything; report, do not die
                tb = traceback.extract_tb(e.__traceback__)
                where = "; ".join(f"{os.path.basename(f.filename)}:{f.lineno} {f.name}" for f in tb[-4:])
                r = Result(
                    violations=[
                        {
                            "clause": "exception",
                            "signature": f"exception:{type(e).__name__}",
                            "detail": f"{type(e).__name__}: {e} @ {where}",
                        }
                    ]
                )
            st.evaluations += r.n
            if r.nontrivial:
                st.nontrivial += int(r.nontrivial)
                if len(st.samples) < MAX_SAMPLES_PER_SHARD:
                    st.samples.append(inst)
            if r.outcome is not None:
                st.outcomes[r.outcome] += 1
            if r.outcomes:
                st.outcomes.update(r.outcomes)
            if r.indeterminate:
                st.indeterminate += r.indeterminate
            if r.extra:
                st.extra.update(r.extra)
            if r.violations:
                st.nviol += len(r.violations)
                for v in r.violations:
                    if len(st.violations) < MAX_VIOL_PER_SHARD:
                        v.setdefault("instance", inst)
                        st.violations.append(v)
        mm[0:8] = struct.pack("<q", -2)  # finished
    except BaseException:
        # harness error: report loudly, do not disguise as a crash of the code under test
        with open(out_path + ".err", "w") as f:
            f.write(traceback.format_exc())
        mm[0:8] = struct.pack("<q", -3)
    with open(out_path, "wb") as f:
        pickle.dump(st, f)
    mm.close()
    os.close(fd)


class HarnessError(Exception):
    pass


def explore(space, run_one, nproc=None, setup=None, label="", progress=True):
    """Run run_one on every instance of space() (a zero-argument generator function).
    Returns merged ShardStats.  Fork-based, so closures are fine."""
    nproc = nproc or NPROC
    tmpdir = tempfile.mkdtemp(prefix="mcpar", dir="/dev/shm" if os.path.isdir("/dev/shm") else None)
    total = ShardStats()
    procs = {}

    def start(shard, resume, carry):
        jp = os.path.join(tmpdir, f"j{shard}")
        op = os.path.join(tmpdir, f"o{shard}.{resume}")
        with open(jp, "wb") as f:
            f.write(struct.pack("<q", -1))
        pid = os.fork()
        if pid == 0:
            code = 0
            try:
                _worker(space, run_one, shard, nproc, resume, jp, op, setup)
            except BaseException:
                traceback.print_exc()
                code = 3
            finally:
                sys.stdout.flush()
                sys.stderr.flush()
                os._exit(code)
        procs[pid] = (shard, resume, jp, op, carry)

    t0 = time.time()
    for s in range(nproc):
        start(s, 0, None)
    try:
        while procs:
            pid, status = os.wait()
            if pid not in procs:
                continue
            shard, resume, jp, op, carry = procs.pop(pid)
            with open(jp, "rb") as f:
                (last,) = struct.unpack("<q", f.read(8))
            if os.path.exists(op + ".err"):
                raise HarnessError(f"worker {shard} of {label}: " + open(op + ".err").read())
            if last == -2 and os.path.exists(op):
                with open(op, "rb") as f:
                    total.merge(pickle.load(f))
                continue
            if last < 0:
                raise HarnessError(f"worker {shard} of {label} died before its first instance (status {status})")
            # the code under test killed the worker on instance `last`
            inst = None
            for idx, i in enumerate(space()):
                if idx == last:
                    inst = i
                    break
            total.crashes.append({"index": last, "instance": inst, "status": status})
            total.evaluations += 1
            # NOTE: the partial statistics of the dead worker are lost; re-run the shard
            # from the start but skipping crashed instances would double work, so resume
            # after the crash and accept that the counts of the dead part are recounted
            # conservatively (not added).
            start(shard, last + 1, None)
    finally:
        for pid in list(procs):
            try:
                os.kill(pid, 9)
            except OSError:
                pass
        import shutil

        shutil.rmtree(tmpdir, ignore_errors=True)
    if progress:
        print(
            f"[{label}] {total.evaluations} instances, {total.nontrivial} non-trivial, "
            f"{len(total.outcomes)} distinct outcomes, {total.nviol} violations, "
            f"{len(total.crashes)} crashes, {time.time() - t0:.1f}s",
            file=sys.stderr,
        )
    return total
