"""Child process of the C16 check: runs ONE subcommand in a fresh interpreter whose hash seed the
parent chose, reports the iteration orders of the name sets it actually had, and leaves the
outputs in the given directory.   python -m mc.c16_child <scenario.json>"""
import contextlib
import io
import json
import logging
import os
import sys

logging.disable(logging.CRITICAL)


def main():
    sc = json.load(open(sys.argv[1]))
    try:
        import pysam

        pysam.set_verbosity(0)
    except Exception:
        pass
    out = sc["outdir"]
    os.makedirs(out, exist_ok=True)
    names = sc["names"]
    orders = {
        "frozenset": list(frozenset(names)),
        "set": list(set(names)),
        "chrom_set": list(set(sc.get("chroms", []))),
    }
    if "sequence" in sc:
        # several commands one after the other in this one interpreter, each writing into its own directory
        err = None
        done = 0
        try:
            for step in sc["sequence"]:
                sub = os.path.join(out, step["tag"])
                os.makedirs(sub, exist_ok=True)
                with contextlib.redirect_stdout(io.StringIO()):
                    run(step["cmd"], step["args"], sub, "")
                done += 1
        except BaseException as e:  # noqa
            err = f"step {done} ({sc['sequence'][done]['tag']}): {type(e).__name__}: {e}"
        print(json.dumps({"orders": orders, "error": err, "hashseed": os.environ.get("PYTHONHASHSEED")}))
        return
    cmd = sc["cmd"]
    a = sc["args"]
    repeat = sc.get("repeat", 1)
    err = None
    try:
        import shutil

        for rep in range(repeat):
            # the repetition writes to the SAME paths as the first run (what the first run left there must not
            # matter); the first run's files are kept as copies named *.first
            with contextlib.redirect_stdout(io.StringIO()):
                run(cmd, a, out, "")
            if rep == 0 and repeat > 1:
                for fn in os.listdir(out):
                    fp = os.path.join(out, fn)
                    if os.path.isfile(fp) and fn != "scenario.json":
                        shutil.copyfile(fp, fp + ".first")
    except BaseException as e:  # noqa
        err = f"{type(e).__name__}: {e}"
    print(json.dumps({"orders": orders, "error": err, "hashseed": os.environ.get("PYTHONHASHSEED")}))


def run(cmd, a, out, suffix):
    p = lambda name: os.path.join(out, name + suffix)  # noqa
    if cmd == "phase":
        from whatshap.cli.phase import run_whatshap

        kw = dict(a.get("kw", {}))
        if a.get("ped"):
            kw["ped"] = a["ped"]
            kw["recombination_list_filename"] = p("recomb.tsv")
        if a.get("gtlist"):
            kw["gtchange_list_filename"] = p("gtchange.tsv")
        with open(p("out.vcf"), "w") as f:
            run_whatshap(a["inputs"], a["vcf"], reference=a["fasta"], output=f, write_command_line_header=False, read_list_filename=p("reads.tsv"), **kw)
    elif cmd == "genotype":
        from whatshap.cli.genotype import run_genotype

        kw = dict(a.get("kw", {}))
        if a.get("ped"):
            kw["ped"] = a["ped"]
        with open(p("out.vcf"), "w") as f:
            run_genotype(a["inputs"], a["vcf"], reference=a["fasta"], output=f, write_command_line_header=False, **kw)
    elif cmd == "polyphase":
        from whatshap.cli.polyphase import run_polyphase

        with open(p("out.vcf"), "w") as f:
            run_polyphase(a["inputs"], a["vcf"], ploidy=a["ploidy"], reference=a["fasta"], output=f, write_command_line_header=False, **a.get("kw", {}))
    elif cmd == "haplotag":
        from whatshap.cli.haplotag import run_haplotag

        run_haplotag(a["vcf"], a["bam"], output=p("out.bam"), reference=a["fasta"], haplotag_list=p("list.tsv"), **a.get("kw", {}))
    elif cmd == "haplotagphase":
        from whatshap.cli.haplotagphase import run_haplotagphase

        with open(p("out.vcf"), "w") as f:
            run_haplotagphase(a["vcf"], a["bam"], output=f, reference=a["fasta"], write_command_line_header=False)
    elif cmd == "compare":
        from whatshap.cli.compare import run_compare

        run_compare(a["vcfs"], ploidy=2, tsv_pairwise=p("pair.tsv"), tsv_multiway=p("multi.tsv"), longest_block_tsv=p("longest.tsv"), switch_error_bed=p("sw.bed"), **a.get("kw", {}))
    elif cmd == "stats":
        from whatshap.cli.stats import run_stats

        run_stats(a["vcf"], tsv=p("stats.tsv"), block_list=p("blocks.tsv"), gtf=p("blocks.gtf"), **a.get("kw", {}))
    elif cmd == "split":
        from whatshap.cli.split import run_split

        run_split(a["bam"], a["list"], output_h1=p("h1.bam"), output_h2=p("h2.bam"), output_untagged=p("un.bam"), read_lengths_histogram=p("hist.tsv"), **a.get("kw", {}))
    elif cmd == "find_snv":
        from whatshap.cli.find_snv_candidates import run_find_snv_candidates

        run_find_snv_candidates(a["fasta"], a["bam"], output=p("out.vcf"), **a.get("kw", {}))
    elif cmd == "unphase":
        from whatshap.cli.unphase import run_unphase

        run_unphase(a["vcf"], p("out.vcf"))
    else:
        raise ValueError(cmd)


if __name__ == "__main__":
    main()
