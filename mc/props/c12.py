"""C12  stats counts add up and describe the phase sets present in the file.

Every sequence of call kinds up to a length bound (x encoding x options, one and two
chromosomes) is written as a VCF and given to run_stats; --tsv, --block-list and --gtf are
compared with an independent count over the file text.
"""
import contextlib
import io
import itertools
import math
import os

from mc import par, synth
from mc.par import Result

LEVEL = "exploration"

IDS = {"A": 7, "B": 3, "C": 100}
KINDS = ["0/0", "1/1", "0/1", "A0|1", "A1|0", "B0|1", "B1|0", "./.", "0/.", "i0/1", "iA0|1", "hA1|1", "mA1|0", "hA0|."]
KINDS_T = KINDS + ["C0|1", "iB1|0", "m0/1"]
IDS_ALL = True
ADDITIVE = ["variants", "phased", "unphased", "singletons", "blocks", "variant_per_block_sum", "bp_per_block_sum", "heterozygous_variants", "heterozygous_snvs", "phased_snvs"]


def build(chroms, enc, second_sample=False):
    """chroms: list of (name, [kind...]).  Returns VCF text."""
    seq = synth.make_reference(99, 400)
    samples = ["S1"] + (["S2"] if second_sample else [])
    vcf = synth.VcfText(samples, contigs=[(n, 400) for n, _ in chroms], formats=["GT", "PS", "HP"])
    for name, kinds in chroms:
        for i, k in enumerate(kinds):
            pos = 50 + 30 * i
            indel = k.startswith("i")
            mnp = k.startswith("m")
            hom = k.startswith("h")
            k2 = k[1:] if indel or hom or mnp else k
            if indel:
                ref, alt = seq[pos], [seq[pos] + "GG"]
            elif mnp:
                ref, alt = seq[pos : pos + 2], [synth.other_base(seq[pos]) + synth.other_base(seq[pos + 1])]
            else:
                ref, alt = seq[pos], [synth.other_base(seq[pos])]
            call = {}
            if k2[0] in "ABC":
                bid = IDS[k2[0]]
                gt = k2[1:]
                if enc == "PS":
                    call = {"GT": gt, "PS": str(bid)}
                elif hom:
                    # a homozygous / half-missing call that carries an HP value of the set
                    call = {"GT": gt.replace("|", "/"), "HP": f"{bid}-1,{bid}-2"}
                else:
                    a0, a1 = gt.split("|")
                    # HP lists, per GT allele in order, the haplotype it belongs to
                    call = {"GT": "0/1", "HP": f"{bid}-{1 if a0 == '0' else 2},{bid}-{2 if a0 == '0' else 1}"}
            else:
                call = {"GT": k2}
            calls = [call]
            if second_sample:
                calls.append({"GT": "1|0", "PS": "55"} if i % 2 == 0 else {"GT": "0/0"})
            fmt = ["GT"] + (["PS"] if any("PS" in c for c in calls) else []) + (["HP"] if any("HP" in c for c in calls) else [])
            vcf.add(name, pos, ref, alt, calls, fmt=fmt)
    return vcf.text()


def expected(chroms, only_snvs, selected):
    """independent counts per chromosome from the scenario description"""
    rows = {}
    blocklist = []
    gtf = []
    for name, kinds in chroms:
        if selected and name not in selected:
            continue
        r = dict.fromkeys(ADDITIVE, 0)
        sets = {}
        run = []
        for i, k in enumerate(kinds):
            pos = 50 + 30 * i
            indel = k.startswith("i") or k.startswith("m")  # not an SNV
            hom = k.startswith("h")
            k2 = k[1:] if indel or hom else k
            if only_snvs and indel:
                continue
            r["variants"] += 1
            bid = IDS[k2[0]] if k2[0] in "ABC" else None
            gt = k2[1:] if bid is not None else k2
            alleles = gt.replace("|", "/").split("/")
            het = "." not in alleles and len(set(alleles)) > 1
            if not het:
                continue
            r["heterozygous_variants"] += 1
            if not indel:
                r["heterozygous_snvs"] += 1
            if bid is None:
                r["unphased"] += 1
                continue
            sets.setdefault(bid, []).append((pos, not indel))
            run.append((pos, bid))
        for bid, members in sets.items():
            if len(members) == 1:
                r["singletons"] += 1
            else:
                r["blocks"] += 1
                r["phased"] += len(members)
                r["variant_per_block_sum"] += len(members)
                r["phased_snvs"] += sum(1 for _, snv in members if snv)
        for bid in sorted(sets):
            ps = [p for p, _ in sets[bid]]
            blocklist.append((name, bid, min(ps) + 1, max(ps) + 1, len(ps)))
        # GTF: maximal runs of one set among the phased variants, in order
        cur = None
        for pos, bid in run:
            if cur is None or cur[2] != bid:
                if cur:
                    gtf.append((name, cur[0] + 1, cur[1] + 1, cur[2]))
                cur = [pos, pos, bid]
            else:
                cur[1] = pos
        if cur:
            gtf.append((name, cur[0] + 1, cur[1] + 1, cur[2]))
        # covered span: union of the extents of the non-singleton sets
        ivs = sorted((min(p for p, _ in m), max(p for p, _ in m)) for m in sets.values() if len(m) > 1)
        union = 0
        end = None
        for a, b in ivs:
            if end is None or a > end:
                union += b - a
                end = b
            elif b > end:
                union += b - end
                end = b
        r["_union"] = union
        r["_sizes"] = [len(m) for m in sets.values() if len(m) > 1]
        rows[name] = r
    return rows, blocklist, gtf


_scratch = None


def judge(inst):
    global _scratch
    from whatshap.cli.stats import run_stats

    if _scratch is None:
        _scratch = synth.Scratch("c12")
    chroms, enc, only_snvs, selected, second = inst
    d = _scratch.path
    text = build(chroms, enc, second)
    vcf = os.path.join(d, f"in{os.getpid()}.vcf")
    with open(vcf, "w") as f:
        f.write(text)
    tsv, bl, gtf = vcf + ".tsv", vcf + ".blocks", vcf + ".gtf"
    viols = []

    def V(clause, detail):
        feats = ""
        allk = [k for _, ks in chroms for k in ks]
        if any(k in ("./.", "0/.") for k in allk):
            feats = ":missing-genotype"
        return {"clause": clause, "signature": f"c12:{clause}{feats}", "detail": detail, "instance": {"chroms": chroms, "enc": enc, "only_snvs": only_snvs, "selected": selected, "second": second}}

    try:
        with contextlib.redirect_stdout(io.StringIO()):
            rc = run_stats(vcf, tsv=tsv, block_list=bl, gtf=gtf, only_snvs=only_snvs, chromosomes=selected or None, sample=None)
    except Exception as e:  # noqa
        return [V("error", f"run_stats failed: {type(e).__name__}: {e}")], False
    rows, eblocks, egtf = expected(chroms, only_snvs, selected)
    got = {}
    with open(tsv) as f:
        hdr = f.readline().rstrip("\n").split("\t")
        for line in f:
            t = line.rstrip("\n").split("\t")
            got[t[1]] = dict(zip(hdr[3:], t[3:]))
    for name, r in rows.items():
        if name not in got:
            viols.append(V("row-missing", f"no TSV row for chromosome {name}"))
            continue
        g = got[name]
        for col in ADDITIVE:
            if col == "bp_per_block_sum":
                continue
            if int(float(g[col])) != r[col]:
                viols.append(V("count:" + col, f"{name}: {col} reported {g[col]}, independent count {r[col]} (kinds {dict(chroms)[name]})"))
        if int(g["phased"]) + int(g["unphased"]) + int(g["singletons"]) != int(g["heterozygous_variants"]):
            viols.append(V("identity", f"{name}: phased+unphased+singletons != heterozygous: {g}"))
        if int(g["variant_per_block_sum"]) != int(g["phased"]):
            viols.append(V("identity", f"{name}: sum of block sizes {g['variant_per_block_sum']} != phased {g['phased']}"))
        sizes = sorted(r["_sizes"])
        if sizes:
            med = (sizes[(len(sizes) - 1) // 2] + sizes[len(sizes) // 2]) / 2
            for col, want in (("variant_per_block_avg", sum(sizes) / len(sizes)), ("variant_per_block_min", sizes[0]), ("variant_per_block_max", sizes[-1]), ("variant_per_block_median", med)):
                if abs(float(g[col]) - want) > 1e-6:
                    viols.append(V("size-stats", f"{name}: {col} reported {g[col]}, the phase sets have sizes {sizes}"))
            # block lengths are taken over non-overlapping pieces: whatever the pieces are, minimum <= median,
            # average <= maximum <= sum, and the average is the sum divided by a whole number of pieces
            bmin, bmed, bavg, bmax, bsum = (float(g["bp_per_block_" + k]) for k in ("min", "median", "avg", "max", "sum"))
            eps = 1e-6
            if not (bmin - eps <= bmed <= bmax + eps and bmin - eps <= bavg <= bmax + eps and bmax <= bsum + eps):
                viols.append(V("length-stats", f"{name}: block length statistics are inconsistent: min {bmin} median {bmed} avg {bavg} max {bmax} sum {bsum}"))
            elif bavg > 0:
                npieces = bsum / bavg
                if abs(npieces - round(npieces)) > 1e-6 or round(npieces) < 1:
                    viols.append(V("length-stats", f"{name}: average block length {bavg} is not the sum {bsum} divided by a number of pieces"))
        if int(float(g["bp_per_block_sum"])) > r["_union"]:
            viols.append(V("span", f"{name}: sum of block lengths {g['bp_per_block_sum']} exceeds the covered span {r['_union']} (kinds {dict(chroms)[name]})"))
    if len(rows) > 1 or (not selected and len(chroms) > 1):
        if "ALL" not in got:
            viols.append(V("all-row", "no ALL row although several chromosomes were processed"))
        else:
            for col in ADDITIVE:
                s = sum(int(float(got[n][col])) for n in rows if n in got)
                if int(float(got["ALL"][col])) != s:
                    viols.append(V("all-row", f"ALL {col} = {got['ALL'][col]}, sum of the chromosome rows = {s}"))
    gb = []
    with open(bl) as f:
        f.readline()
        for line in f:
            t = line.rstrip("\n").split("\t")
            gb.append((t[1], int(t[2]), int(t[3]), int(t[4]), int(t[5])))
    if sorted(gb) != sorted(eblocks):
        viols.append(V("block-list", f"block list {sorted(gb)}, expected {sorted(eblocks)}"))
    gg = []
    with open(gtf) as f:
        for line in f:
            t = line.rstrip("\n").split("\t")
            gid = int(t[8].split('"')[1])
            gg.append((t[0], int(t[3]), int(t[4]), gid))
    if gg != egtf:
        viols.append(V("gtf", f"GTF {gg}, expected {egtf}"))
    nontrivial = any(r["blocks"] > 0 for r in rows.values())
    return viols, nontrivial


def space(tier):
    T = tier == "thorough"
    K = KINDS_T if T else KINDS
    maxlen = 5 if T else 4
    for n in range(1, maxlen + 1):
        ks = K if n <= 4 else KINDS[:9]
        for seq in itertools.product(ks, repeat=n):
            yield ([("chr1", list(seq))], "PS", False, None, False)
            if n <= (4 if T else 3):
                yield ([("chr1", list(seq))], "HP", False, None, False)
                if any(k[0] in "im" for k in seq):
                    yield ([("chr1", list(seq))], "PS", True, None, False)
    # three interleaved / nested phase sets over 6-9 (10) phased variants (splitting into non-overlapping pieces)
    for n in (6, 7, 8, 9) + ((10,) if T else ()):
        for seq in itertools.product(["A0|1", "B0|1", "C0|1"], repeat=n):
            if seq[0] != "A0|1" or "B0|1" not in seq or (seq.index("B0|1") > seq.index("C0|1") if "C0|1" in seq else False):
                continue
            yield ([("chr1", list(seq))], "PS", False, None, False)
    K2 = ["0/1", "A0|1", "A1|0", "B0|1", "1/1", "./.", "iA0|1"] + (["B1|0", "0/."] if T else [])
    seqs = [s for n in (1, 2, 3) for s in itertools.product(K2, repeat=n) if n <= 2 or (T and n == 3 and s[0] != "1/1")]
    for s1 in seqs:
        for s2 in seqs if T else seqs[:: 3]:
            for sel in (None, ["chr2"], ["chr1", "chr2"], ["chr2", "chr1"]):
                yield ([("chr1", list(s1)), ("chr2", list(s2))], "PS", False, sel, False)
    for s1 in seqs:
        yield ([("chr1", list(s1))], "PS", False, None, True)
    # interleaved / nested phase sets on two chromosomes (ALL row of the block-length columns)
    inter = [s for n in (4, 5) for s in itertools.product(["A0|1", "B0|1", "0/1"] if n == 4 else ["A0|1", "B0|1"], repeat=n) if s[0] == "A0|1" and s.count("A0|1") >= 2 and s.count("B0|1") >= 2]
    # three chromosomes, every selection of one or two of them
    three = [s for s in seqs if len(s) == 2][:: 2 if not T else 1]
    for s1 in three[::3]:
        for s2 in three[1::3]:
            for s3 in three[2::3][:: 1 if T else 2]:
                # (also named against the order of the file)
                for sel in (["chr2", "chr3"], ["chr1", "chr3"], ["chr3"], ["chr1", "chr2"], ["chr2"], ["chr3", "chr1"], ["chr3", "chr2", "chr1"], ["chr2", "chr1"]):
                    yield ([("chr1", list(s1)), ("chr2", list(s2)), ("chr3", list(s3))], "PS", False, sel, False)
                # contigs in karyotype order, which is not the order of their names as strings (chr10 < chr2)
                for sel in (["chr1", "chr10"], ["chr10"], ["chr2", "chr10"], ["chr10", "chr1"], ["chr10", "chr2"]):
                    yield ([("chr1", list(s1)), ("chr2", list(s2)), ("chr10", list(s3))], "PS", False, sel, False)
    # a set that continues behind two nested sets on one chromosome, a two-variant set at every offset on the other
    # (the ALL row must not let the pieces of one chromosome be cut by a block of another)
    for c1 in (["A0|1", "A0|1", "B0|1", "B0|1", "A0|1", "A0|1", "C0|1", "C0|1", "A0|1", "A0|1"], ["A0|1", "B0|1", "B0|1", "A0|1", "C0|1", "C0|1", "A0|1"], ["A0|1", "A0|1", "B0|1", "A0|1", "B0|1", "C0|1", "A0|1", "C0|1"]):
        for start in range(0, len(c1) - 1):
            c2 = ["0/0"] * start + ["A0|1", "A0|1"]
            yield ([("chr1", list(c1)), ("chr2", c2)], "PS", False, None, False)
            yield ([("chr1", c2), ("chr2", list(c1))], "PS", False, None, False)
    for s1 in inter:
        for s2 in inter[:: 1 if T else 5] + [("A0|1", "A0|1")]:
            yield ([("chr1", list(s1)), ("chr2", list(s2))], "PS", False, None, False)


def run_one(inst):
    viols, nt = judge(inst)
    return Result(nontrivial=nt, violations=viols[:4], outcome=(len(inst[0]), inst[1], bool(viols)))


def run(rep, tier, seed, only=None):
    st = par.explore(lambda: space(tier), run_one, label="C12")
    rep.add_violations(st.violations)
    rep.add_crashes(st.crashes, "C12")
    rep.coverage.update(
        evaluations=st.evaluations,
        distinct_nontrivial=st.nontrivial,
        rule="every sequence of call kinds up to the length bound x encoding (PS/HP) x --only-snvs x chromosome selections; "
        "non-trivial = file with at least one phase set of >= 2 variants",
        samples=[{"chroms": s[0], "enc": s[1]} for s in st.samples[:4]],
        exhaustive=True,
        distinct_outcomes=len(st.outcomes),
    )
    rep.assumptions += [
        "multi-ALT records and duplicate positions are not generated (the reader drops them before counting and the statement is silent about them)",
        "heterozygous = called genotype with at least two distinct alleles; missing and partially missing genotypes are not heterozygous",
    ]


def replay(v):
    i = v["instance"]
    viols, _ = judge(([tuple(c) for c in i["chroms"]], i["enc"], i["only_snvs"], i["selected"], i["second"]))
    return viols
