"""C04  The phased VCF is the input VCF plus phase information and nothing else.

Every sequence of <= 3 (4) record kinds x decoration profile x option vector is written as a
multi-sample, two-chromosome VCF, phased by run_whatshap with error-free reads, and the output
is diffed record by record against the input with the independent text reader.
"""
import itertools
import os

from mc import par, synth
from mc.par import Result

LEVEL = "exploration"

KINDS = ["snv", "ins", "del", "hom0", "hom1", "miss", "partial", "multi", "sym", "dup", "noalt", "prePS", "preHP", "multiP", "noaltP", "mnp"]
SAMPLES = ["S1", "S2", "S3"]
NPROFILES = 5


def record_spec(seq, pos, kind, prev):
    """(pos, ref, alts, het_alleles or None) for a record kind"""
    b = seq[pos]
    o = synth.other_base(b)
    if kind == "dup" and prev is not None:
        pos = prev[0]
        b = seq[pos]
        return pos, b, [synth.other_base(b, 2)], None
    if kind == "ins":
        v = synth.make_variant(seq, pos, "INS", 2)
        return pos, v.ref, v.alts, (0, 1)
    if kind == "del":
        v = synth.make_variant(seq, pos, "DEL", 2)
        return pos, v.ref, v.alts, (0, 1)
    if kind == "mnp":
        # two-base substitution; its first ALT base is the ALT of a "dup" SNV record that may follow on the same POS
        n_ = seq[pos + 1]
        return pos, b + n_, [synth.other_base(b, 2) + synth.other_base(n_)], (0, 1)
    if kind in ("multi", "multiP"):
        return pos, b, [o, synth.other_base(b, 2)], None
    if kind == "sym":
        return pos, b, ["<DEL>"], None
    if kind in ("noalt", "noaltP"):
        return pos, b, [], None
    if kind in ("snv", "prePS", "preHP"):
        return pos, b, [o], (0, 1)
    return pos, b, [o], None  # hom0 hom1 miss partial


def s1_gt(kind):
    return {
        "snv": "0/1", "ins": "0/1", "del": "0/1", "hom0": "0/0", "hom1": "1/1", "miss": "./.", "partial": "0/.", "multi": "1/2",
        "sym": "0/1", "dup": "0/1", "noalt": "0/0", "prePS": "0|1", "preHP": "0/1",
        "multiP": "1|2", "noaltP": "0|0", "mnp": "0/1",  # records the tool never phases itself, phased in the input
    }[kind]


def build(kinds, profile, scratch, seed):
    """returns paths dict; chr1 carries the kind sequence, chr2 two plain het SNVs"""
    seqs = [("chr1", synth.make_reference(seed, 400)), ("chr2", synth.make_reference(seed + 1, 300))]
    specs = []
    for i in range(len(kinds)):
        p = 60 + 45 * i
        k = kinds[i]
        if k in ("del",):
            specs.append((p, "DEL", 2))
    seqs[0] = ("chr1", synth.make_unshiftable(seqs[0][1], specs))
    if profile in (1, 3):
        seqs.append(("chrUn", synth.make_reference(seed + 2, 300)))
    fasta = synth.write_fasta(os.path.join(scratch, "ref.fa"), seqs)
    infos, formats, filters, extra = [], ["GT", "PS", "HP"], [], []
    if profile == 1:
        infos = ["DP", "AF", "DB"]
        formats += ["DP", "GQ"]
    elif profile == 2:
        infos = ["ANN"]
        formats += ["AD", "PL"]
        filters = ["q10"]
    elif profile == 3:
        formats += ["GL"]
    contigs = [(n, len(s)) for n, s in seqs]
    if profile == 4:
        contigs = [contigs[0]]  # chr2 used but not declared
    if any(k == "sym" for k in kinds):
        infos = list(infos) + ["END", "SVTYPE"]
    vcf = synth.VcfText(SAMPLES, contigs=contigs, formats=formats, infos=infos, filters=filters, extra_header=extra)
    truth = {"chr1": [], "chr2": [], "chrUn": []}
    prev = None
    for i, k in enumerate(kinds):
        pos, ref, alts, het = record_spec(seqs[0][1], 60 + 45 * i, k, prev)
        prev = (pos, ref, alts)
        gts = {"S1": s1_gt(k)}
        biallelic_plain = het is not None
        # records in which the first sample is not heterozygous but the others are: a processed record with an
        # unphased target call next to phased ones
        others_het = k in ("hom0", "hom1", "miss", "partial")
        gts["S2"] = ("1/0" if i % 2 == 0 else "1|0") if (biallelic_plain or others_het) else ("1/2" if k in ("multi", "multiP") else "0/0")
        gts["S3"] = "1|0" if (biallelic_plain or others_het) else "./."
        fmt = ["GT"]
        calls = {s: {"GT": g} for s, g in gts.items()}
        if any("|" in g for g in gts.values()):
            fmt.append("PS")
            for s in SAMPLES:
                if "|" in gts[s]:
                    calls[s]["PS"] = "77" if s == "S3" else "61"
        if k == "preHP":
            # HP-encoded input phasing (GATK style): S1 always, and S3 (often not selected) instead of its PS phasing
            fmt.append("HP")
            calls["S1"]["HP"] = "61-1,61-2"
            calls["S3"] = {"GT": "0/1", "HP": "77-2,77-1"}
            gts["S3"] = "0/1"
            if not any("|" in g for g in gts.values()):
                fmt.remove("PS")
                for s in SAMPLES:
                    calls[s].pop("PS", None)
        rid, qual, filt, info = ".", ".", ".", "."
        nall = 1 + len(alts)
        if profile == 1:
            rid, qual, filt = f"rs{i + 1}", "37.5", "PASS"
            info = "DP=10;AF=" + ",".join(["0.25"] * max(1, len(alts))) + ";DB"
            fmt += ["DP", "GQ"]
            for s in SAMPLES:
                calls[s]["DP"] = str(20 + i)
                calls[s]["GQ"] = "." if gts[s].startswith(".") else str(40 + i)
        elif profile == 2:
            qual, filt, info = "12", "q10", "ANN=a|b,c"
            fmt += ["AD", "PL"]
            ngt = nall * (nall + 1) // 2
            for s in SAMPLES:
                calls[s]["AD"] = ",".join(str(5 + j) for j in range(nall))
                calls[s]["PL"] = ",".join(str(10 * j) for j in range(ngt))
        elif profile == 3:
            info = "AC=" + ",".join(["1"] * max(1, len(alts)))  # predefined INFO, used but not declared
            fmt += ["GL", "GQ"]  # GQ: predefined FORMAT, used but not declared
            ngt = nall * (nall + 1) // 2
            for s in SAMPLES:
                calls[s]["GL"] = ",".join("0" if j == 1 else "-3.5" for j in range(ngt))
                calls[s]["GQ"] = str(30 + i)
        if k == "sym":
            info = (info + ";" if info != "." else "") + f"SVTYPE=DEL;END={pos + 30}"
        vcf.add("chr1", pos, ref, alts, [calls[s] for s in SAMPLES], id=rid, qual=qual, filt=filt, info=info, fmt=fmt)
        truth["chr1"].append((pos, ref, alts, het if not others_het else (0, 1), {"S1": (1, 1) if k == "hom1" else (0, 0)} if others_het else {}))
    for i in range(2):
        p = 70 + 50 * i
        b = seqs[1][1][p]
        vcf.add("chr2", p, b, [synth.other_base(b)], [{"GT": "0/1"}, {"GT": "0/1"}, {"GT": "1|0", "PS": "9"}], fmt=["GT", "PS"])
        truth["chr2"].append((p, b, [synth.other_base(b)], (0, 1), {}))
    if profile in (1, 3):
        # a last contig whose only records are ones the reader does not load (multi-ALT, no ALT)
        b = seqs[2][1][40]
        vcf.add("chrUn", 40, b, [synth.other_base(b), synth.other_base(b, 2)], [{"GT": "1/2"}, {"GT": "0/1"}, {"GT": "1|2", "PS": "9"}], fmt=["GT", "PS"])
        vcf.add("chrUn", 80, seqs[2][1][80], [], [{"GT": "0/0"}, {"GT": "0/0"}, {"GT": "0/0"}], fmt=["GT"])
    vcf_path = vcf.write(os.path.join(scratch, "in.vcf"))
    # reads: one long error-free read per haplotype and sample over each chromosome
    alns = []
    for ci, (cname, cseq) in enumerate(seqs):
        vs, seen, special = [], set(), []
        for pos, ref, alts, het, per_sample in truth[cname]:
            if het is not None and pos not in seen and not alts[0].startswith("<"):
                vs.append(synth.Var(pos, ref, alts))
                special.append(per_sample)
                seen.add(pos)
        for s in SAMPLES:
            for h in (0, 1):
                al = [(sp[s][h] if s in sp else h) for sp in special]
                q, cig = synth.hap_read(cseq, vs, al, 20, len(cseq) - 20)
                alns.append({"name": f"{s}_{cname}_h{h}", "chrom": cname, "start": 20, "cigar": cig, "seq": q, "rg": f"rg_{s}"})
    bam = os.path.join(scratch, "reads.bam")
    synth.write_bam(bam, [(n, len(s)) for n, s in seqs], alns, read_groups=[{"ID": f"rg_{s}", "SM": s} for s in SAMPLES])
    return {"fasta": fasta, "vcf": vcf_path, "bam": bam}


def header_ids(header):
    out = set()
    for h in header:
        for kind in ("contig", "INFO", "FILTER", "FORMAT"):
            if h.startswith(f"##{kind}=<ID="):
                out.add((kind, h.split("<ID=")[1].split(",")[0].rstrip(">")))
    return out


def values_equal(a, b):
    if a is None:
        a = "."
    if b is None:
        b = "."
    if a == b:
        return True
    xa, xb = a.split(","), b.split(",")
    if len(xa) != len(xb):
        # trailing missing values may be dropped
        return all(x == "." for x in xa) and all(x == "." for x in xb)
    return all(synth.num_eq(x, y) for x, y in zip(xa, xb))


_scratch = None


def judge(inst):
    global _scratch
    from mc import phaseworld as pw

    if _scratch is None:
        _scratch = synth.Scratch("c04")
    d = os.path.join(_scratch.path, f"p{os.getpid()}")
    os.makedirs(d, exist_ok=True)
    for f in os.listdir(d):
        os.unlink(os.path.join(d, f))
    kinds, profile, opts = inst["kinds"], inst["profile"], inst["opts"]
    seed = int(os.environ.get("VERIF_SEED", "0")) + 41
    viols = []

    def V(clause, detail):
        return {"clause": clause, "signature": "c04:" + clause, "detail": detail + f" [kinds {kinds} profile {profile} opts {opts}]", "instance": inst}

    paths = build(kinds, profile, d, seed)
    parsed, traces, err = pw.run_phase(paths, d, trace=False, **opts)
    if err:
        return [V("error", f"whatshap phase failed: {err}")], False
    raw = open(os.path.join(d, "out.vcf"), "rb").read()
    bad = sorted({b for b in raw if b < 9 or (13 < b < 32)})
    if bad:
        line = next((l for l in raw.split(b"\n") if any(c in l for c in bytes(bad))), b"")
        viols.append(V("malformed-output", f"the output contains control characters {bad}: {line[:200]!r}"))
    inp = synth.parse_vcf(paths["vcf"])
    sel_samples = opts.get("samples") or SAMPLES
    sel_chroms = opts.get("chromosomes") or ["chr1", "chr2", "chrUn"]
    distrust = opts.get("distrust_genotypes", False)
    only_snvs = opts.get("only_snvs", False)
    if len(inp["records"]) != len(parsed["records"]):
        return [V("record-count", f"{len(inp['records'])} records in, {len(parsed['records'])} out")], False
    if inp["samples"] != parsed["samples"]:
        viols.append(V("samples", f"{inp['samples']} -> {parsed['samples']}"))
    missing_hdr = header_ids(inp["header"]) - header_ids(parsed["header"])
    if missing_hdr:
        viols.append(V("header", f"definitions lost from the header: {sorted(missing_hdr)}"))
    nphased = 0
    for ri, ro in zip(inp["records"], parsed["records"]):
        where = f"{ri['chrom']}:{ri['pos']}"
        for k in ("chrom", "pos", "id", "ref", "alt", "filter"):
            if ri[k] != ro[k]:
                viols.append(V("field:" + k, f"{where}: {k} {ri[k]!r} -> {ro[k]!r}"))
        if not synth.num_eq(ri["qual"], ro["qual"]):
            viols.append(V("field:qual", f"{where}: QUAL {ri['qual']} -> {ro['qual']}"))
        ia, oa = synth.info_parse(ri["info"]), synth.info_parse(ro["info"])
        if set(ia) != set(oa) or any(not (ia[k] is True and oa[k] is True) and not values_equal(str(ia[k]), str(oa[k])) for k in ia if k in oa):
            viols.append(V("field:info", f"{where}: INFO {ri['info']} -> {ro['info']}"))
        chrom_selected = ri["chrom"] in sel_chroms
        if not chrom_selected and ri["format"] != ro["format"]:
            viols.append(V("unselected-chromosome", f"{where}: FORMAT keys {ri['format']} -> {ro['format']} on a chromosome that was not selected"))
        for si, s in enumerate(inp["samples"]):
            ci, co = ri["calls"][si], ro["calls"][si]
            selected = chrom_selected and s in sel_samples
            for key in ci:
                if key in ("GT", "PS", "HP"):
                    continue
                if not values_equal(ci.get(key), co.get(key)):
                    viols.append(V("format-value", f"{where} {s}: {key} {ci.get(key)} -> {co.get(key)}"))
            gi, pi = synth.gt_parse(ci.get("GT"))
            go, po = synth.gt_parse(co.get("GT"))
            if not selected:
                for key in ("GT", "PS", "HP"):
                    a, b = ci.get(key, "."), co.get(key, ".")
                    if (a or ".") != (b or ".") and not (a in (".", "") and b in (".", "")):
                        viols.append(V("untouched-call", f"{where} {s} (not selected): {key} {a} -> {b}"))
                continue
            if not distrust:
                if (gi is None) != (go is None) or (gi is not None and sorted(map(str, gi)) != sorted(map(str, go))):
                    viols.append(V("allele-multiset", f"{where} {s}: GT {ci.get('GT')} -> {co.get('GT')}"))
            ph = synth.decode_phase(co)
            marked = ph is not None or po
            if marked:
                nphased += 1
                alts = ro["alt"]
                is_snv = len(ro["ref"]) == 1 and len(alts) == 1 and len(alts[0]) == 1
                ok = go is not None and None not in go and len(set(go)) > 1 and len(alts) == 1 and not alts[0].startswith("<") and (is_snv or not only_snvs)
                if not ok:
                    viols.append(V("phased-unsupported", f"{where} {s}: call {co} is marked phased (record REF {ro['ref']} ALT {alts}, only_snvs={only_snvs})"))
    return viols[:6], nphased >= 2


def option_vectors(T):
    out = [dict(tag="PS"), dict(tag="HP"), dict(tag="PS", samples=["S1", "S2"]), dict(tag="PS", chromosomes=["chr1"]), dict(tag="HP", samples=["S1"], chromosomes=["chr2"]), dict(tag="PS", only_snvs=True)]
    out.append(dict(tag="PS", distrust_genotypes=True, include_homozygous=True))
    out.append(dict(tag="HP", distrust_genotypes=True))
    if T:
        out += [dict(tag="HP", distrust_genotypes=True, include_homozygous=True), dict(tag="HP", only_snvs=True, samples=["S2"]), dict(tag="PS", chromosomes=["chr2"])]
    return out


def space(tier):
    T = tier == "thorough"
    ov = option_vectors(T)
    for n in (1, 2, 3) + ((4,) if T else ()):
        for kinds in itertools.product(KINDS, repeat=n):
            if kinds[0] == "dup":
                continue
            if n == 4 and len(set(kinds)) < 3:
                continue
            profiles = range(NPROFILES) if n <= 3 else [sum(KINDS.index(k) * (i + 1) for i, k in enumerate(kinds)) % NPROFILES]
            for profile in profiles:
                opts_list = ov if n <= 2 else [ov[(sum(KINDS.index(k) for k in kinds) + profile) % len(ov)], ov[(KINDS.index(kinds[0]) + 3 * KINDS.index(kinds[-1])) % len(ov)]]
                seen = []
                for o in opts_list:
                    if o in seen:
                        continue
                    seen.append(o)
                    yield {"kinds": list(kinds), "profile": profile, "opts": o}


def run_one(inst):
    viols, nt = judge(inst)
    return Result(nontrivial=nt, violations=viols, outcome=(inst["profile"], bool(viols)))


def run(rep, tier, seed, only=None):
    st = par.explore(lambda: space(tier), run_one, label="C04")
    rep.add_violations(st.violations)
    rep.add_crashes(st.crashes, "C04")
    rep.coverage.update(
        evaluations=st.evaluations,
        distinct_nontrivial=st.nontrivial,
        rule="every sequence of record kinds up to the length bound x decoration profile x option vector (complete for length <= 2, covering design above); "
        "non-trivial = at least two calls marked phased in the output",
        samples=st.samples[:4],
        exhaustive=True,
        distinct_outcomes=len(st.outcomes),
    )
    rep.assumptions += ["numbers are compared as numbers; a trailing run of missing FORMAT values may be dropped", "with --distrust-genotypes the allele-multiset clause is not judged"]


def replay(v):
    return judge(v["instance"])[0]
