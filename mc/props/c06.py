"""C06  Allele detection never assigns the wrong allele to an error-free read.

Complete grid of (variant type and length, reference context, haplotype, read start and end
offsets, CIGAR style) placements; every read is an exact copy of one haplotype with indels at
the VCF position.  One BAM per site, read once with the reference (re-alignment) and once
without (CIGAR walk) through whatshap.variants.ReadSetReader.read.
"""
import itertools
import os

from mc import par, synth
from mc.par import Result

LEVEL = "exploration"

V = 100  # variant position (0-based) of the primary variant
OFF = 14
OVERHANG = 10


def site_reference(seed, context, vlen, kind=None):
    seq = list(synth.make_reference(seed, 260))
    if context == "random":
        return synth.make_unshiftable("".join(seq), [(V, kind, vlen)])
    if context == "homopolymer":
        b = "A" if seq[V] != "A" else "C"
        for i in range(V + 1, V + 8):
            seq[i] = b
        if seq[V + 8] == b:
            seq[V + 8] = synth.other_base(b)
    elif context == "dinuc":
        a = "A" if seq[V] != "A" else "C"
        b = "G" if seq[V] != "G" else "T"
        for i in range(V + 1, V + 9):
            seq[i] = a if (i - V) % 2 == 1 else b
        # make sure the repeat ends
        if seq[V + 9] == a:
            seq[V + 9] = synth.other_base(a, 2) if synth.other_base(a, 2) != b else synth.other_base(a, 1)
    return "".join(seq)


def site_variant(seq, kind, vlen, context):
    if context == "random":
        return synth.make_variant(seq, V, kind, vlen)
    # repeat contexts: the indel consists of repeat units, left-aligned at the anchor before the run
    unit = 1 if context == "homopolymer" else 2
    n = vlen * unit if context == "dinuc" else vlen
    if kind == "INS":
        return synth.Var(V, seq[V], [seq[V] + seq[V + 1 : V + 1 + n]], kind)
    if kind == "DEL":
        return synth.Var(V, seq[V : V + 1 + n], [seq[V]], kind)
    raise ValueError


def fully_covers(v, allele, start, end):
    fend = v.pos + len(v.ref)
    if start > v.pos:
        return False
    if len(v.allele(allele)) < len(v.ref) and allele != 0:
        return end >= fend + 1
    if v.kind == "INS" and allele == 0:
        # absence of an insertion is only observable with the base after the anchor
        return end >= fend + 1
    return end >= fend


def build_site(site):
    """site = (kind, vlen, context, seed) or ("pair", kind1, kind2, D, seed).
    Returns (seq, variants, alignments, expectations)."""
    alns = []
    exp = {}
    n = [0]

    def add(seq, variants, alleles, start, end, style="M", pre=None, post=None, note="", extra_vars=(), demand=True, flag=0, name=None, qual=30, mate=None):
        """one read over [start, end) of the haplotype carrying `alleles` at `variants`"""
        allv = list(variants) + [e[0] for e in extra_vars]
        alla = list(alleles) + [e[1] for e in extra_vars]
        q, cig = synth.hap_read(seq, allv, alla, start, end, "=X" if style == "=X" else "M")
        if pre:
            for op, ln, bases in reversed(pre):
                cig = [(op, ln)] + cig
                q = bases + q
        if post:
            for op, ln, bases in post:
                cig = cig + [(op, ln)]
                q = q + bases
        n[0] += 1
        nm = name or f"q{n[0]}"
        alns.append({"name": nm, "chrom": "chrA", "start": start, "cigar": cig, "seq": q, "rg": "rg1", "flag": flag, "qual": qual, "mate": mate})
        return nm, cig

    if site[0] not in ("pair", "rpair"):
        kind, vlen, context, seed = site
        seq = site_reference(seed, context, vlen, kind)
        v = site_variant(seq, kind, vlen, context)
        variants = [v]
        fend = v.pos + len(v.ref)
        shiftable = context != "random"
        for a in (0, 1):
            for so in range(0, OFF + 1):
                for eo in range(0, OFF + 1):
                    start, end = v.pos - so, fend + eo
                    if kind == "DEL" and a == 1 and eo == 0:
                        continue  # would end with a D operator
                    for style in ("M", "=X"):
                        nm, _ = add(seq, variants, [a], start, end, style)
                        exp[nm] = {"v": {0: a}, "cover": {0: fully_covers(v, a, start, end)}, "clean": True, "style": style, "shiftable": shiftable, "geom": (a, so, eo)}
            # clips and unrelated events on a reduced offset grid (boundary, inside and beyond the overhang)
            for so in (0, 1, 3, 10, 11, 14):
                for eo in (1, 3, 10, 11, 14):
                    start, end = v.pos - so, fend + eo
                    for style, pre, post in (
                        ("S-lead", [(4, 3, "GAT")], None),
                        ("S-trail", None, [(4, 3, "TAG")]),
                        ("H-lead", [(5, 5, "")], None),
                        ("H-lead-long", [(5, 23, "")], None),
                        ("H-trail", None, [(5, 17, "")]),
                        ("S-both", [(4, 2, "CC")], [(4, 4, "GGTT")]),
                        ("HS-lead", [(5, 9, ""), (4, 13, "GATTACAGATTAC")], [(4, 2, "AC"), (5, 4, "")]),
                    ):
                        nm, _ = add(seq, variants, [a], start, end, "M", pre, post)
                        exp[nm] = {"v": {0: a}, "cover": {0: fully_covers(v, a, start, end)}, "clean": True, "style": style, "shiftable": shiftable, "geom": (a, so, eo)}
            # unrelated insertion / deletion (an unlisted difference of the haplotype) at distance d
            for d in (2, 3, 5, 20):
                if shiftable and d < 20:
                    continue  # inside the repeat an extra indel is not "unrelated"
                for side in ("L", "R"):
                    for ukind in ("INS", "DEL"):
                        upos = v.pos - d - 1 if side == "L" else fend + d
                        if ukind == "DEL" and side == "L":
                            upos = v.pos - d - 2
                        uv = synth.make_variant(seq, upos, ukind, 1)
                        start, end = v.pos - 30, fend + 30
                        nm, _ = add(seq, variants, [a], start, end, "M", extra_vars=[(uv, 1)])
                        far = d >= 20
                        exp[nm] = {"v": {0: a}, "cover": {0: True}, "clean": far, "style": f"unrelated-{ukind}-{side}{d}", "shiftable": shiftable, "geom": (a, d, side)}
            # reference skips: elsewhere (close to / far from the variant) and over the variant
            for gap_at in (1, 2, 5, 12, 25):
                # segment with the variant, then N, then a second segment to the right
                s1, e1 = v.pos - 12, fend + gap_at
                if kind == "DEL" and a == 1 and gap_at < 1:
                    continue
                q1, c1 = synth.hap_read(seq, variants, [a], s1, e1)
                s2, e2 = e1 + 30, e1 + 45
                q2, c2 = seq[s2:e2], [(0, e2 - s2)]
                n[0] += 1
                nm = f"q{n[0]}"
                alns.append({"name": nm, "chrom": "chrA", "start": s1, "cigar": c1 + [(3, s2 - e1)] + c2, "seq": q1 + q2, "rg": "rg1"})
                exp[nm] = {"v": {0: a}, "cover": {0: fully_covers(v, a, s1, e1)}, "clean": True, "style": f"N-right{gap_at}", "shiftable": shiftable, "geom": (a, gap_at)}
                # N to the left of the variant
                e0 = v.pos - gap_at
                s0 = e0 - 15
                s1b, e1b = v.pos - gap_at + 0, fend + 12
                # left segment [s0-30.. ) then N then segment starting gap_at before the variant
                sl, el = s1b - 45, s1b - 30
                q0, c0 = seq[sl:el], [(0, el - sl)]
                q1, c1 = synth.hap_read(seq, variants, [a], s1b, e1b)
                n[0] += 1
                nm = f"q{n[0]}"
                alns.append({"name": nm, "chrom": "chrA", "start": sl, "cigar": c0 + [(3, s1b - el)] + c1, "seq": q0 + q1, "rg": "rg1"})
                exp[nm] = {"v": {0: a}, "cover": {0: fully_covers(v, a, s1b, e1b)}, "clean": True, "style": f"N-left{gap_at}", "shiftable": shiftable, "geom": (a, gap_at)}
            # N over the variant: no allele may be recorded
            sl, el = v.pos - 25, v.pos - 3
            sr, er = fend + 3, fend + 25
            n[0] += 1
            nm = f"q{n[0]}"
            alns.append({"name": nm, "chrom": "chrA", "start": sl, "cigar": [(0, el - sl), (3, sr - el), (0, er - sr)], "seq": seq[sl:el] + seq[sr:er], "rg": "rg1"})
            exp[nm] = {"v": {}, "none": [0], "style": "N-over", "geom": (a,)}
            # reads entirely left / right of the variant
            for s_, e_ in ((v.pos - 40, v.pos - 1), (v.pos - 30, v.pos), (fend, fend + 30), (fend + 1, fend + 40)):
                n[0] += 1
                nm = f"q{n[0]}"
                alns.append({"name": nm, "chrom": "chrA", "start": s_, "cigar": [(0, e_ - s_)], "seq": seq[s_:e_], "rg": "rg1"})
                exp[nm] = {"v": {}, "none": [0], "style": "outside", "geom": (s_ - v.pos, e_ - fend)}
            # mate pairs (same name): covering + non covering; both covering (equal / different qualities)
            for variant_mates, q1_, q2_ in (("one", 30, 30), ("both", 30, 30), ("both", 35, 20), ("both", 12, 33)):
                n[0] += 1
                nm = f"pair{n[0]}"
                s1, e1 = v.pos - 9, fend + 9
                if variant_mates == "one":
                    s2, e2 = fend + 40, fend + 70
                else:
                    s2, e2 = v.pos - 4, fend + 21
                add(seq, variants, [a], s1, e1, name=nm, flag=1 | 0x40, qual=q1_, mate={"chrom": "chrA", "start": s2})
                add(seq, variants, [a], s2, e2, name=nm, flag=1 | 0x80, qual=q2_, mate={"chrom": "chrA", "start": s1})
                exp[nm] = {"v": {0: a}, "cover": {0: True}, "clean": True, "style": f"pair-{variant_mates}-{q1_}-{q2_}", "shiftable": shiftable, "geom": (a,)}
        return seq, variants, alns, exp

    if site[0] == "rpair":
        # a variant (possibly inside a repeat) and a second listed indel placed around the ends of the first one's
        # re-alignment window [v.pos - OVERHANG, fend + OVERHANG): inside it, straddling its end, outside
        _, kind, vlen, context, ukind, ulen, off, seed = site
        seq0 = site_reference(seed, context, vlen, kind)
        v = site_variant(seq0, kind, vlen, context)
        fend = v.pos + len(v.ref)
        upos = fend + off if off > 0 else v.pos + off
        if context != "random" and off > 0 and upos < V + 10:
            return None  # inside the repeat the two indels are not independent (and the second one not normalised)
        seq = synth.make_unshiftable(seq0, [(upos, ukind, ulen)])
        if context != "random" and seq[v.pos - 2 : V + 10] != seq0[v.pos - 2 : V + 10]:
            return None  # the adjustment touched the repeat
        if context == "random":
            seq = synth.make_unshiftable(seq, [(V, kind, vlen)])
            if synth.make_unshiftable(seq, [(upos, ukind, ulen)]) != seq:
                return None
        v1 = site_variant(seq, kind, vlen, context)
        v2 = synth.make_variant(seq, upos, ukind, ulen)
        if ukind == "INS" and ulen > 8:
            # a long insertion of one repeated base that occurs neither in the first variant's alleles nor next to the
            # anchor: its bases cannot stand in for bases of the first variant
            avoid = set(v1.ref + v1.alts[0] + seq[upos] + seq[upos + 1])
            b = next((x for x in "ACGT" if x not in avoid), None)
            if b is None:
                return None
            v2 = synth.Var(upos, seq[upos], [seq[upos] + b * ulen], "INS")
        i1 = 0 if v1.pos < v2.pos else 1
        variants = [v1, v2] if i1 == 0 else [v2, v1]
        lo, hi = min(v1.pos, v2.pos), max(v1.pos + len(v1.ref), v2.pos + len(v2.ref))
        for a1, a2 in itertools.product((0, 1), repeat=2):
            al = [a1, a2] if i1 == 0 else [a2, a1]
            for so, eo in ((30, 30), (12, 14), (2, 3)):
                for style in ("M", "=X"):
                    start, end = lo - so, hi + eo
                    nm, _ = add(seq, variants, al, start, end, style)
                    exp[nm] = {
                        "v": {i1: a1, 1 - i1: a2},
                        "cover": {0: True, 1: True},
                        "clean": True,
                        # the other variant is a difference inside (or at the edge of) the window when it is non-reference
                        "window_other": {i1: a2 == 1, 1 - i1: a1 == 1},
                        "style": style,
                        "shiftable": context != "random",
                        "shiftable_v": {i1: context != "random", 1 - i1: False},
                        "geom": (a1, a2, off, so, eo),
                    }
        return seq, variants, alns, exp

    # two variants at distance D: the lock-step walk over CIGAR and variant list
    _, k1, k2, D, seed = site[:5]
    len1 = site[5] if len(site) > 5 else 1
    seq = synth.make_unshiftable(synth.make_reference(seed, 260), [(V, k1, len1), (V + D, k2, 1)])
    v1 = synth.make_variant(seq, V, k1, len1)
    v2 = synth.make_variant(seq, V + D, k2, 1)
    variants = [v1, v2]
    f2 = v2.pos + len(v2.ref)
    for a1, a2 in itertools.product((0, 1), repeat=2):
        for so in (0, 1, 2, 5, 12):
            for eo in (1, 2, 5, 12):
                for style in ("M", "=X"):
                    start, end = v1.pos - so, f2 + eo
                    nm, _ = add(seq, variants, [a1, a2], start, end, style)
                    close = D <= OVERHANG + 2
                    exp[nm] = {
                        "v": {0: a1, 1: a2},
                        "cover": {0: fully_covers(v1, a1, start, end), 1: fully_covers(v2, a2, start, end)},
                        # the other variant is a difference inside the re-alignment window when both are non-reference
                        "clean": True,
                        "window_other": {0: close and a2 == 1, 1: close and a1 == 1},
                        "style": style,
                        "shiftable": False,
                        "geom": (a1, a2, so, eo),
                    }
        # a reference skip over the first variant, the second one covered behind the skip
        if D >= 8 + len(v1.ref):
            sl, el = v1.pos - 25, v1.pos - 3
            sr, er = v1.pos + len(v1.ref) + 3, f2 + 12
            qr, cr = synth.hap_read(seq, [v2], [a2], sr, er)
            n[0] += 1
            nm = f"q{n[0]}"
            alns.append({"name": nm, "chrom": "chrA", "start": sl, "cigar": [(0, el - sl), (3, sr - el)] + cr, "seq": seq[sl:el] + qr, "rg": "rg1"})
            exp[nm] = {"v": {1: a2}, "none": [0], "cover": {1: True}, "clean": True, "style": "N-over-first", "shiftable": False, "geom": (a1, a2)}
        # a read covering only one of the two
        nm, _ = add(seq, variants, [a1, a2], v1.pos - 20, v1.pos + len(v1.ref) + (D - len(v1.ref)) // 2 if D > 2 else v1.pos + len(v1.ref))
        if D > 2 * len(v1.ref) + 2:
            exp[nm] = {"v": {0: a1}, "cover": {0: True}, "none": [1], "clean": True, "style": "first-only", "shiftable": False, "geom": (a1, a2)}
        else:
            exp[nm] = {"skip": True}
    return seq, variants, alns, exp


def sites(tier):
    seed0 = int(os.environ.get("VERIF_SEED", "0")) * 100 + 11
    T = tier == "thorough"
    out = []
    kinds = [("SNV", 1), ("MNP", 2), ("MNP", 3), ("INS", 1), ("INS", 2), ("INS", 3), ("DEL", 1), ("DEL", 2), ("DEL", 3)]
    if T:
        kinds += [("MNP", 4), ("INS", 5), ("DEL", 5), ("INS", 8), ("DEL", 8)]
    for rep in range(6 if T else 3):
        for kind, vlen in kinds:
            out.append((kind, vlen, "random", seed0 + rep))
            if kind in ("INS", "DEL") and vlen <= 6:  # the repeat run built by site_reference has 7 units
                out.append((kind, vlen, "homopolymer", seed0 + rep))
                if vlen <= 2:
                    out.append((kind, vlen, "dinuc", seed0 + rep))
        for k1, k2 in (("SNV", "SNV"), ("SNV", "INS"), ("INS", "SNV"), ("DEL", "SNV"), ("SNV", "DEL"), ("INS", "DEL"), ("DEL", "INS")):
            for D in (1, 2, 3, 5, 11, 30):
                if k1 == "DEL" and D < 2:
                    continue
                out.append(("pair", k1, k2, D, seed0 + rep))
        # a second listed indel around the ends of the re-alignment window of a variant (also inside repeats)
        for kind, vlen in kinds:
            for context in ("random", "homopolymer", "dinuc"):
                if context != "random" and (kind not in ("INS", "DEL") or vlen > 6 or (context == "dinuc" and vlen > 2)):
                    continue
                for ukind in ("DEL", "INS"):
                    for ulen in (1, 2, 3, 5, 6, 8) + ((25, 31) if ukind == "INS" else (25,)):
                        for off in list(range(-OVERHANG - 6 - ulen, -3 - ulen)) + list(range(3, OVERHANG + 4)):
                            if rep > 0 and not T:
                                continue
                            if ulen > 8 and not (T or (off in (-ulen - 8, -ulen - 5, 4, 7, 9) and context == "random")):
                                continue  # long neighbouring alleles (longer than REF + 2 x overhang) on a slice
                            out.append(("rpair", kind, vlen, context, ukind, ulen, off, seed0 + rep))
        # a record with a symbolic ALT allele in the list: left of, right of and (pairs) next to ordinary variants
        if rep == 0:
            for symalt in ("<DEL>", "<INS>", "<DUP>") if T else ("<DEL>", "<INS>"):
                for symoff in (-12, -6, -2, 3, 8):
                    for kind, vlen in kinds[:9]:
                        out.append(("sym", (kind, vlen, "random", seed0), symalt, symoff))
                    for k1, k2 in (("SNV", "SNV"), ("SNV", "INS"), ("DEL", "SNV")):
                        if symoff in (-6, 3):
                            out.append(("sym", ("pair", k1, k2, 30, seed0), symalt, symoff))
        out.append(("tins", seed0 + rep))
        # one record with two ALT alleles (multi-allelic reading, as under polyphase)
        for config in MAV_CONFIGS:
            out.append(("mav", config, seed0 + rep))
        # a longer first indel followed closely by a second variant
        for k1, k2 in (("INS", "INS"), ("INS", "SNV"), ("INS", "DEL"), ("DEL", "INS"), ("DEL", "SNV"), ("DEL", "DEL")):
            for len1 in (1, 2, 3):
                for D in (1, 2, 3, 4, 5, 8):
                    if k1 == "DEL" and D < len1 + 1:
                        continue
                    if (k1, k2, len1) in (("INS", "SNV", 1), ("INS", "DEL", 1), ("DEL", "INS", 1), ("DEL", "SNV", 1)):
                        continue
                    out.append(("pair", k1, k2, D, seed0 + rep, len1))
    return out


def run_site(site):
    from whatshap.core import NumericSampleIds
    from whatshap.variants import ReadSetReader
    from whatshap.vcf import VcfReader

    if site[0] == "mav":
        return run_mav(site)
    if site[0] == "tins":
        return run_tins(site)
    sym = None
    if site[0] == "sym":
        # a record with a symbolic ALT (ignored by allele detection) in the list, before or behind the site's variants
        _, inner, symalt, symoff = site
        built = build_site(tuple(inner))
        if built is None:
            return Result(n=0)
        vs_ = built[1]
        sym_pos = (min(v.pos for v in vs_) + symoff) if symoff < 0 else (max(v.pos + len(v.ref) for v in vs_) + symoff)
        sym = (sym_pos, built[0][sym_pos], symalt)
    else:
        built = build_site(site)
    if built is None:
        return Result(n=0)
    seq, variants, alns, exp = built
    viols = []
    n = nt = 0
    outcomes = set()
    extra = {}
    by_name = {}
    for a_ in alns:
        by_name[a_["name"]] = None if a_["name"] in by_name else a_  # mates: not modelled
    with synth.Scratch("c06") as sc:
        fasta = synth.write_fasta(os.path.join(sc.path, "ref.fa"), [("chrA", seq)])
        vcf = synth.VcfText(["S1"], contigs=[("chrA", len(seq))])
        rows = [(v.pos, v.ref, v.alts, ".") for v in variants]
        if sym:
            rows.append((sym[0], sym[1], [sym[2]], "SVTYPE=" + sym[2].strip("<>") + ";END=" + str(sym[0] + 40)))
            rows.sort(key=lambda r: r[0])
            vcf.header += ['##ALT=<ID=' + sym[2].strip("<>") + ',Description="symbolic">', '##INFO=<ID=SVTYPE,Number=1,Type=String,Description="t">', '##INFO=<ID=END,Number=1,Type=Integer,Description="e">']
        for pos_, ref_, alts_, info_ in rows:
            vcf.add("chrA", pos_, ref_, alts_, ["0/1"], info=info_)
        vcf_path = vcf.write(os.path.join(sc.path, "in.vcf"))
        bam = os.path.join(sc.path, "reads.bam")
        synth.write_bam(bam, [("chrA", len(seq))], alns, read_groups=[{"ID": "rg1", "SM": "S1"}])
        with VcfReader(vcf_path) as vr:
            tables = list(vr)
        assert len(tables) == 1 and len(tables[0].variants) == len(variants) + (1 if sym else 0), (site, tables)
        wvars = tables[0].variants
        pos_index = {}
        k_ = 0
        for v in wvars:
            if any(str(a).startswith("<") for a in v.get_alt_allele_list()):
                pos_index[v.position] = "sym"
            else:
                pos_index[v.position] = k_
                k_ += 1
        modes = ["ref", "noref"]
        bam_sets = {"ref": [bam], "noref": [bam]}
        if site[0] in ("pair",) or (len(site) == 4 and site[2] == "random" and site[1] == 1):
            # the same alignments spread over two files of the sample (every other alignment, in coordinate order),
            # given in either order: the merged stream must be the one of the single file
            srt = sorted(alns, key=lambda a_: (a_["start"], a_["name"]))
            parts = [[a_ for i_, a_ in enumerate(srt) if i_ % 2 == k_] for k_ in (0, 1)]
            if all(parts):
                two = []
                for k_, part in enumerate(parts):
                    pth = os.path.join(sc.path, f"part{k_}.bam")
                    synth.write_bam(pth, [("chrA", len(seq))], part, read_groups=[{"ID": "rg1", "SM": "S1"}])
                    two.append(pth)
                modes += ["ref-2files", "ref-2files-rev"]
                bam_sets["ref-2files"] = two
                bam_sets["ref-2files-rev"] = two[::-1]
        for mode in modes:
            nsi = NumericSampleIds()
            with ReadSetReader(bam_sets[mode], reference=fasta if mode != "noref" else None, numeric_sample_ids=nsi, mapq_threshold=20) as rsr:
                rs = rsr.read("chrA", wvars, "S1", seq if mode != "noref" else None)
            if mode.startswith("ref-2files"):
                mode_label = mode
                mode = "ref"
            got = {}
            for r in rs:
                got[r.name] = {pos_index[x.position]: x.allele for x in r}
            for nm, e in exp.items():
                if e.get("skip"):
                    continue
                g = got.get(nm, {})
                n += 1
                if g.get("sym", 0) != 0:
                    # no haplotype of the site carries the symbolic allele: "0" or no allele are both within the statement
                    viols.append(_v("wrong-allele", mode, site, nm, e, f"allele {g['sym']} recorded for the record with the symbolic ALT {sym[2]}, which the haplotype does not carry"))
                for vi in e.get("none", []):
                    if vi in g:
                        viols.append(_v("spurious", mode, site, nm, e, f"allele {g[vi]} recorded for variant {vi} which the read does not overlap"))
                for vi, a in e["v"].items():
                    kind = variants[vi].kind
                    if vi in g and g[vi] != a:
                        why = edit_distance_limit(seq, variants[vi], a, by_name.get(nm)) if mode == "ref" else None
                        if why:
                            extra["edit_distance_limit"] = extra.get("edit_distance_limit", 0) + 1
                            viols.append(_v("wrong-allele", mode, site, nm, e, f"variant {vi} ({variants[vi]}): recorded allele {g[vi]}, the haplotype carries {a}; {why}", sub=":edit-distance-limit"))
                        else:
                            viols.append(_v("wrong-allele", mode, site, nm, e, f"variant {vi} ({variants[vi]}): recorded allele {g[vi]}, the haplotype carries {a}"))
                        continue
                    if not e["cover"].get(vi):
                        outcomes.add((mode, "partial", vi in g))
                        continue
                    nt += 1
                    must = False
                    if mode == "ref":
                        must = e["clean"] and not e.get("window_other", {}).get(vi)
                    else:
                        plain = e["style"] in ("M", "=X")
                        if kind == "SNV":
                            must = e["clean"] or True
                        elif kind in ("INS", "DEL") and not e.get("shiftable_v", {}).get(vi, e["shiftable"]):
                            must = True
                        # two variants whose normalised positions coincide are dropped by design
                        npos = [x.pos + (1 if x.kind in ("INS", "DEL") else 0) for x in variants]
                        if npos.count(npos[vi]) > 1:
                            must = False
                    if vi not in g:
                        if must:
                            viols.append(_v("missed", mode, site, nm, e, f"variant {vi} ({variants[vi]}) fully covered, allele {a} not recorded"))
                        else:
                            extra[f"undetected_{mode}"] = extra.get(f"undetected_{mode}", 0) + 1
                    outcomes.add((mode, e["style"].split("-")[0], vi in g))
    return Result(n=n, nontrivial=nt, violations=viols[:12], outcomes=outcomes, extra=extra)


MAV_CONFIGS = ("snv2", "ins-nested", "ins-nested-rev", "ins-distinct", "del-nested", "del-nested-rev", "snv+ins", "ins+snv", "snv+del", "del+snv", "mnp2")


def mav_site(config, seed):
    """one record with two ALT alleles at V on a random reference; returns (seq, Var)"""
    seq = list(synth.make_reference(seed, 260))
    a = seq[V]
    if seq[V + 1] == a:
        seq[V + 1] = synth.other_base(a)
    n_ = seq[V + 1]
    g, h = [b for b in "ACGT" if b not in (a, n_)]
    o1, o2 = synth.other_base(a, 1), synth.other_base(a, 2)
    if config == "snv2":
        v = synth.Var(V, a, [o1, o2], "SNV")
    elif config in ("ins-nested", "ins-nested-rev"):
        alts = [a + g * 3, a + g]
        v = synth.Var(V, a, alts if config == "ins-nested" else alts[::-1], "INS")
    elif config == "ins-distinct":
        v = synth.Var(V, a, [a + g + h, a + h + g], "INS")
    elif config in ("del-nested", "del-nested-rev"):
        # the deleted stretch b1 b2 b3 is followed by a base different from b3 (and b1 differs from the anchor)
        for i, b in ((2, g), (3, h), (4, n_)):
            seq[V + i] = b
        ref = "".join(seq[V : V + 4])
        alts = [a, a + seq[V + 3]]
        v = synth.Var(V, ref, alts if config == "del-nested" else alts[::-1], "DEL")
    elif config in ("snv+ins", "ins+snv"):
        alts = [o1, a + g]
        v = synth.Var(V, a, alts if config == "snv+ins" else alts[::-1], "INS")
    elif config in ("snv+del", "del+snv"):
        seq[V + 2] = g
        alts = [o1 + n_, a]
        v = synth.Var(V, a + n_, alts if config == "snv+del" else alts[::-1], "DEL")
    elif config == "mnp2":
        b = seq[V + 1]
        v = synth.Var(V, a + b, [o1 + synth.other_base(b, 1), o2 + synth.other_base(b, 2)], "MNP")
    else:
        raise ValueError(config)
    return "".join(seq), v


def run_mav(site):
    """multi-allelic record (read with mav=True): the allele recorded for an exact copy of a haplotype is the one
    it carries or none"""
    from whatshap.core import NumericSampleIds
    from whatshap.variants import ReadSetReader
    from whatshap.vcf import VcfReader

    _, config, seed = site
    seq, v = mav_site(config, seed)
    fend = v.pos + len(v.ref)
    alns, exp = [], {}
    for c in (0, 1, 2):
        al = v.allele(c)
        for so in (0, 1, 3, 10, 14):
            for eo in (0, 1, 3, 10, 14):
                for style in ("M", "=X"):
                    start, end = v.pos - so, fend + eo
                    if len(al) < len(v.ref) and eo == 0:
                        continue
                    try:
                        q, cig = synth.hap_read(seq, [v], [c], start, end, style)
                    except ValueError:
                        continue
                    if cig[-1][0] in (1, 2):
                        continue  # alignments do not end with an indel operator
                    nm = f"m{len(alns)}"
                    alns.append({"name": nm, "chrom": "chrA", "start": start, "cigar": cig, "seq": q, "rg": "rg1", "flag": 0, "qual": 30, "mate": None})
                    exp[nm] = {"carried": c, "style": style, "geom": (c, so, eo), "full": eo >= 1}
    viols = []
    n = nt = 0
    outcomes = set()
    with synth.Scratch("c06") as sc:
        fasta = synth.write_fasta(os.path.join(sc.path, "ref.fa"), [("chrA", seq)])
        vcf = synth.VcfText(["S1"], contigs=[("chrA", len(seq))])
        vcf.add("chrA", v.pos, v.ref, v.alts, ["1/2"])
        vcf_path = vcf.write(os.path.join(sc.path, "in.vcf"))
        bam = os.path.join(sc.path, "reads.bam")
        synth.write_bam(bam, [("chrA", len(seq))], alns, read_groups=[{"ID": "rg1", "SM": "S1"}])
        with VcfReader(vcf_path, mav=True) as vr:
            tables = list(vr)
        assert len(tables) == 1 and len(tables[0].variants) == 1, (site, tables)
        wvars = tables[0].variants
        for mode in ("ref", "noref"):
            nsi = NumericSampleIds()
            with ReadSetReader([bam], reference=fasta if mode == "ref" else None, numeric_sample_ids=nsi, mapq_threshold=20) as rsr:
                rs = rsr.read("chrA", wvars, "S1", seq if mode == "ref" else None)
            got = {r.name: [x.allele for x in r] for r in rs}
            for nm, e in exp.items():
                n += 1
                g = got.get(nm, [])
                if g and g[0] != e["carried"]:
                    viols.append(_v("wrong-allele", mode, site, nm, e, f"multi-allelic record {v}: recorded allele {g[0]}, the haplotype carries {e['carried']}", sub=":multi-allelic"))
                elif not g and e["full"] and (mode == "ref" or config == "snv2"):
                    viols.append(_v("missed", mode, site, nm, e, f"multi-allelic record {v} fully covered, allele {e['carried']} not recorded", sub=":multi-allelic"))
                if e["full"]:
                    nt += 1
                outcomes.add((mode, "mav", config.split("-")[0], bool(g)))
    return Result(n=n, nontrivial=nt, violations=viols[:12], outcomes=outcomes)


def run_tins(site):
    """an insertion directly in front of a listed SNV that the read does not overlap: the alignment continues behind a
    reference skip that contains the SNV.  No allele may be recorded for it."""
    from whatshap.core import NumericSampleIds
    from whatshap.variants import ReadSetReader
    from whatshap.vcf import VcfReader

    _, seed = site
    seq = synth.make_reference(seed, 260)
    v = synth.make_variant(seq, V, "SNV")
    alns, exp = [], {}
    for n_ins in (1, 2, 3):
        for base_kind in ("alt", "ref", "other"):
            b = {"alt": v.alts[0], "ref": v.ref, "other": synth.other_base(v.ref, 2)}[base_kind]
            for tail in ("skip",):  # (an alignment does not END with an insertion: aligners clip such bases - assumption of this check)
                for lead in (5, 20):
                    q = seq[V - lead : V] + b * n_ins
                    cig = [(0, lead), (1, n_ins)]
                    if tail == "skip":
                        cig += [(3, 50), (0, 20)]
                        q += seq[V + 50 : V + 70]
                    nm = f"t{len(alns)}"
                    alns.append({"name": nm, "chrom": "chrA", "start": V - lead, "cigar": cig, "seq": q, "rg": "rg1", "flag": 0, "qual": 30, "mate": None})
                    exp[nm] = {"style": f"ins-then-{tail}", "geom": (n_ins, base_kind, lead)}
    viols = []
    n = 0
    with synth.Scratch("c06") as sc:
        fasta = synth.write_fasta(os.path.join(sc.path, "ref.fa"), [("chrA", seq)])
        vcf = synth.VcfText(["S1"], contigs=[("chrA", len(seq))])
        vcf.add("chrA", v.pos, v.ref, v.alts, ["0/1"])
        vcf_path = vcf.write(os.path.join(sc.path, "in.vcf"))
        bam = os.path.join(sc.path, "reads.bam")
        synth.write_bam(bam, [("chrA", len(seq))], alns, read_groups=[{"ID": "rg1", "SM": "S1"}])
        with VcfReader(vcf_path) as vr:
            tables = list(vr)
        wvars = tables[0].variants
        for mode in ("ref", "noref"):
            nsi = NumericSampleIds()
            with ReadSetReader([bam], reference=fasta if mode == "ref" else None, numeric_sample_ids=nsi, mapq_threshold=20) as rsr:
                rs = rsr.read("chrA", wvars, "S1", seq if mode == "ref" else None)
            got = {r.name: [x.allele for x in r] for r in rs}
            for nm, e in exp.items():
                n += 1
                if got.get(nm):
                    viols.append(_v("spurious", mode, site, nm, e, f"allele {got[nm][0]} recorded for {v}, which lies behind the last aligned base of the read's first block (the read does not overlap it)", sub=":insertion-before-variant"))
    return Result(n=n, nontrivial=n, violations=viols[:12], outcomes={("tins", bool(viols))})


def _lev(a, b):
    d = list(range(len(b) + 1))
    for i, ca in enumerate(a, 1):
        p, d[0] = d[:], i
        for j, cb in enumerate(b, 1):
            d[j] = min(p[j] + 1, d[j - 1] + 1, p[j - 1] + (ca != cb))
    return d[-1]


def edit_distance_limit(seq, v, carried, aln):
    """Is the wrong call the unavoidable outcome of the documented re-alignment rule?  The rule compares the read
    bases aligned to the reference window [v.pos - OVERHANG, v.pos + len(REF) + OVERHANG) (cut at the read's ends;
    insertions at the window's edge excluded) with the window carrying REF and with the window carrying ALT by
    unit-cost edit distance; padded alleles know nothing of a neighbouring listed variant.  Returns an explanation
    iff, on the exactly extracted window, the other allele is strictly closer; None otherwise (and for reads with
    reference skips or mates, which are not modelled)."""
    if aln is None or any(op == 3 for op, _ in aln["cigar"]):
        return None
    lo, hi = v.pos - OVERHANG, v.pos + len(v.ref) + OVERHANG
    pos, qi, out = aln["start"], 0, []
    first = last = None
    for op, ln in aln["cigar"]:
        if op in (0, 7, 8):
            for _ in range(ln):
                if lo <= pos < hi:
                    out.append(aln["seq"][qi])
                    first = pos if first is None else first
                    last = pos
                pos += 1
                qi += 1
        elif op == 2:
            for _ in range(ln):
                if lo <= pos < hi:
                    first = pos if first is None else first
                    last = pos
                pos += 1
        elif op == 1:
            if lo < pos < hi:
                out.append(aln["seq"][qi : qi + ln])
            qi += ln
        elif op == 4:
            qi += ln
    if first is None or first > v.pos or last < v.pos + len(v.ref) - 1:
        return None
    query = "".join(out)
    lo2, hi2 = first, last + 1
    w = [seq[lo2 : v.pos] + al + seq[v.pos + len(v.ref) : hi2] for al in (v.ref, v.alts[0])]
    d = [_lev(query, x) for x in w]
    if d[1 - carried] < d[carried]:
        return f"edit distance of the exactly extracted window to the padded alleles REF/ALT: {d[0]}/{d[1]}"
    return None


def _v(clause, mode, site, nm, e, detail, sub=""):
    if "N-" in e.get("style", ""):
        sub = ":nskip"
    return {
        "clause": clause,
        "signature": f"c06:{clause}{sub}",
        "detail": f"[{mode}] read {nm} style {e.get('style')} geom {e.get('geom')}: {detail}",
        "instance": {"site": list(site), "read": nm, "mode": mode},
    }


def run(rep, tier, seed, only=None):
    S = sites(tier)

    def space():
        yield from S

    st = par.explore(space, run_site, label="C06")
    rep.add_violations(st.violations)
    rep.add_crashes(st.crashes, "C06")
    rep.coverage.update(
        evaluations=st.evaluations,
        distinct_nontrivial=st.nontrivial,
        rule="one evaluation = one (read placement, detection mode); placements are the complete grid of the stated alphabet per site; "
        "non-trivial = (read, variant) pairs where the read fully covers the variant",
        samples=[{"site": list(s)} for s in st.samples[:4]],
        sites=len(S),
        exhaustive=True,
        undetected_but_not_demanded={k: v for k, v in st.extra.items()},
        distinct_outcomes=len(st.outcomes),
    )
    rep.assumptions += [
        "'fully covers': aligned span contains the whole REF footprint (ref read / SNV / MNP / insertion incl. all inserted bases), and at least one base beyond a deletion",
        "without a reference, the correct allele is demanded for SNVs and unshiftable insertions/deletions; MNPs and shiftable indels are judged on 'never the wrong allele' only",
        "with a reference, reads whose re-alignment window contains another (unlisted or second) difference are judged on 'never the wrong allele' only",
    ]


def replay(v):
    site = tuple(v["instance"]["site"])
    r = run_site(site)
    return [x for x in r.violations if x["instance"]["read"] == v["instance"]["read"] and x["instance"]["mode"] == v["instance"]["mode"]] or r.violations[:3]
