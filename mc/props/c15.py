"""C15  polyphase output obeys the input genotypes and forms contiguous blocks.

Every polyploid world of a bounded alphabet (ploidy x true haplotype matrix up to row order x
read tiling x block-cut sensitivity x tag) is phased by run_polyphase in-process; the output VCF
is compared with the input (genotype conformance, pass-through) and the phase sets with the
read-covered heterozygous variants of the scenario (disjoint ordered stretches, names).
"""
import itertools
import os

from mc import par, phaseworld as pw, synth
from mc.par import Result

LEVEL = "exploration"


def hap_matrices(p, k, alleles=(0, 1)):
    """all multisets of p rows over alleles^k in which every column is heterozygous"""
    rows = list(itertools.product(alleles, repeat=k))
    for m in itertools.combinations_with_replacement(rows, p):
        if all(len({r[c] for r in m}) > 1 for c in range(k)):
            yield m


def read_designs(p, k, T):
    """list of (name, [ (hap, first, last, copies) ])"""
    out = []
    for w in (2, 3):
        if w > k:
            continue
        for depth in (1, 2):
            reads = []
            for h in range(p):
                for s in range(0, k - w + 1):
                    reads.append((h, s, s + w - 1, depth))
            out.append((f"tile{w}x{depth}", reads))
    # uneven coverage: last haplotype has no read over the right half
    if k >= 3:
        reads = []
        for h in range(p):
            for s in range(0, k - 1):
                if h == p - 1 and s >= k // 2:
                    continue
                reads.append((h, s, s + 1, 1))
        out.append(("uneven", reads))
    # a coverage gap between the two halves forces a block boundary
    if k >= 4:
        reads = []
        for h in range(p):
            reads.append((h, 0, 1, 2))
            reads.append((h, 2, k - 1, 2))
        out.append(("gap", reads))
    # the first variant is covered only by two-variant reads, the rest by longer ones (matters with --min-overlap 3)
    if k >= 4:
        reads = []
        for h in range(p):
            reads.append((h, 0, 1, 1))
            reads.append((h, 1, k - 1, 1))
        out.append(("shortlead", reads))
    return out


def worlds(tier):
    T = tier == "thorough"
    seed = int(os.environ.get("VERIF_SEED", "0")) + 151
    plan = [(2, 3), (2, 4), (3, 3), (3, 4), (4, 3), (4, 4), (2, 5)] + ([(3, 5), (5, 3), (6, 3), (5, 4)] if T else [])
    for p, k in plan:
        mats = list(hap_matrices(p, k))
        if not T and len(mats) > 600:
            mats = mats[:: len(mats) // 600 + 1]
        if T and len(mats) > 1200:
            mats = mats[:: len(mats) // 1200 + 1]
        designs = read_designs(p, k, T)
        for mi, m in enumerate(mats):
            for di, (dname, reads) in enumerate(designs):
                Bs = (0, 1, 2, 4, 5) if not T else (0, 1, 2, 3, 4, 5)
                for B in Bs:
                    if not T and (mi + di + B) % 2 and dname not in ("gap", "uneven"):
                        continue
                    for tag in ("PS",) + (("HP",) if (mi + di) % 4 == 0 else ()):
                        yield mk(seed, p, k, m, dname, reads, dict(block_cut_sensitivity=B, tag=tag), extra=(mi % 3 == 0))
    # multi-allelic columns (alleles 0,1,2), k <= 3
    for p, k in [(3, 2), (3, 3)] + ([(4, 3)] if T else []):
        mats = [m for m in hap_matrices(p, k, (0, 1, 2)) if any(2 in r for r in m)]
        mats = mats[:: max(1, len(mats) // (200 if T else 60))]
        for mi, m in enumerate(mats):
            for dname, reads in read_designs(p, k, T)[:2]:
                yield mk(seed, p, k, m, dname, reads, dict(block_cut_sensitivity=4, tag="PS"), extra=False, multi=True)
    # reads that contradict the genotype at a multi-allelic site: one haplotype's reads carry ALT 2 where the
    # VCF genotype only lists alleles 0 and 1 (the output must still list exactly the input alleles)
    for p, k in [(3, 3), (4, 3)] + ([(4, 4)] if T else []):
        mats = [m for m in hap_matrices(p, k, (0, 1, 2)) if sum(1 for r in m for x in r if x == 2) == 1]
        mats = mats[:: max(1, len(mats) // (160 if T else 50))]
        for m in mats:
            for dname, reads in read_designs(p, k, T)[:2]:
                for B in (0, 4):
                    inst = mk(seed, p, k, m, dname, reads, dict(block_cut_sensitivity=B, tag="PS"), extra=False, multi=True)
                    inst["world"]["gt_override_2_as_1"] = True
                    yield inst
    # two samples whose heterozygous sites differ (a variant heterozygous in one sample only, at the start of a block)
    for p, k in [(3, 4), (4, 4)]:
        mats = list(hap_matrices(p, k))
        mats = mats[:: max(1, len(mats) // (120 if T else 40))]
        for mi, m in enumerate(mats):
            inst = mk(seed, p, k, m, "gap", [r for n_, r in read_designs(p, k, T) if n_ == "gap"][0], dict(block_cut_sensitivity=4, tag="PS"))
            w = inst["world"]
            w["samples"] = ["S1", "S2"]
            e = w["haps"]["S1"]["chrA"]
            s2 = [list(x) for x in e]
            s1 = [list(x) for x in e]
            s2[0] = [1] * p  # S2 homozygous at the first variant of block 1
            s1[2] = [1] * p  # S1 homozygous at the first variant of block 2
            w["haps"] = {"S1": {"chrA": s1}, "S2": {"chrA": s2}}
            w["reads"] = [dict(r, sample=sn) for sn in ("S1", "S2") for r in w["reads"]]
            w["two_samples"] = True
            yield inst
    # further chromosomes on the same coordinate grid on which nothing can be phased: chrB has no reads, chrC has
    # reads but a single heterozygous variant (per-chromosome state must not carry over)
    for p, k in [(2, 3), (3, 3), (4, 3)] + ([(3, 4)] if T else []):
        mats = list(hap_matrices(p, k))
        mats = mats[:: max(1, len(mats) // (100 if T else 30))]
        for m in mats:
            for dname, reads in read_designs(p, k, T)[:2]:
                for tag in ("PS", "HP"):
                    inst = mk(seed, p, k, m, dname, reads, dict(block_cut_sensitivity=4, tag=tag))
                    w = inst["world"]
                    ca = w["chroms"][0]
                    w["chroms"] = [ca, dict(ca, name="chrB"), dict(ca, name="chrC")]
                    e = w["haps"]["S1"]["chrA"]
                    w["haps"]["S1"]["chrB"] = [list(x) for x in e]
                    w["haps"]["S1"]["chrC"] = [list(e[0])] + [[1] * p for _ in e[1:]]
                    w["reads"] += [{"sample": "S1", "chrom": "chrC", "hap": h, "segs": [[0, len(e) - 1, 6, 6]], "n": 2} for h in range(p)]
                    yield inst
    # a block boundary (coverage gap) between two variants on neighbouring bases
    for p, k in [(2, 4), (3, 4), (4, 4)]:
        mats = list(hap_matrices(p, k))
        mats = mats[:: max(1, len(mats) // (120 if T else 30))]
        gap = [r for n_, r in read_designs(p, k, T) if n_ == "gap"][0]
        for m in mats:
            for B in (0, 4):
                for tag in ("PS", "HP"):
                    yield mk(seed, p, k, m, "gap", gap, dict(block_cut_sensitivity=B, tag=tag), adjacent_at=2)
    # --min-overlap 3: reads covering fewer than three variants are dropped (variants they alone cover stay unphased)
    for p, k in [(2, 4), (3, 4), (4, 4)] + ([(3, 5)] if T else []):
        mats = list(hap_matrices(p, k))
        mats = mats[:: max(1, len(mats) // (150 if T else 40))]
        for m in mats:
            for dname, reads in read_designs(p, k, T):
                for B in (0, 4):
                    yield mk(seed, p, k, m, dname, reads, dict(block_cut_sensitivity=B, tag="PS", min_overlap=3), extra=False)
    # all reads of the first haplotype skip one inner variant (reference skip); the other haplotypes cover it
    for p, k in [(2, 5), (3, 5), (4, 5)] + ([(3, 6)] if T else []):
        mats = list(hap_matrices(p, k))
        mats = mats[:: max(1, len(mats) // (300 if T else 60))]
        for m in mats:
            for g in range(1, k - 1):
                for B in (0, 4):
                    reads = [(h, 0, k - 1, 2) for h in range(p)]
                    inst = mk(seed, p, k, m, f"skip{g}", reads, dict(block_cut_sensitivity=B, tag="PS"))
                    for r in inst["world"]["reads"]:
                        if r["hap"] == 0:
                            hi = inst["world"]["het_index"]
                            r["segs"] = [[hi[0], hi[g - 1], 6, 6], [hi[g + 1], hi[k - 1], 6, 6]]
                            r["link"] = "N"
                    yield inst
    # two records on one coordinate with different ALT alleles (the second one is not read and must not be phased)
    for p, k in [(2, 3), (3, 3), (4, 3)] + ([(3, 4), (6, 3)] if T else []):
        mats = list(hap_matrices(p, k))
        mats = mats[:: max(1, len(mats) // (60 if T else 12))]
        for m in mats:
            for dname, reads in read_designs(p, k, T)[:1]:
                for tag in ("PS", "HP"):
                    for kind in ("hom", "het1", "hetmost"):
                        for at in (0, 1):
                            inst = mk(seed, p, k, m, dname, reads, dict(block_cut_sensitivity=4, tag=tag))
                            inst["world"]["dup"] = [kind, at]
                            yield inst
    # pre-phasing and distrust (pass-through clauses only under distrust)
    for p, k in [(3, 4), (4, 3)]:
        mats = list(hap_matrices(p, k))[:: 40 if not T else 10]
        for m in mats:
            for dname, reads in read_designs(p, k, T)[:1]:
                yield mk(seed, p, k, m, dname, reads, dict(block_cut_sensitivity=1, tag="PS", use_prephasing=True), extra=True, prephase=True)
                yield mk(seed, p, k, m, dname, reads, dict(block_cut_sensitivity=4, tag="PS", distrust_genotypes=True), extra=True)


def mk(seed, p, k, m, dname, reads, opts, extra=False, multi=False, prephase=False, adjacent_at=None):
    # extra: a homozygous and a missing-genotype record between the heterozygous ones
    cols = []  # (kind, alleles per haplotype)
    for c in range(k):
        cols.append(("het", [r[c] for r in m]))
        if extra and c == 0:
            cols.append(("hom", [1] * p))
        if extra and c == 1:
            cols.append(("miss", None))
    vs = []
    haps = []
    het_index = []
    for i, (kind, al) in enumerate(cols):
        v = {"pos": 60 + 40 * i, "kind": "SNV", "len": 1}
        if adjacent_at is not None and i >= adjacent_at:
            v["pos"] -= 39  # record adjacent_at lies on the base right behind its predecessor
        if multi and al is not None and 2 in al:
            v["multi"] = True
        vs.append(v)
        if kind == "het":
            het_index.append(i)
            haps.append(list(al))
        elif kind == "hom":
            haps.append(list(al))
        else:
            haps.append("miss")
    world = {"seed": seed, "chroms": [{"name": "chrA", "length": 60 + 40 * len(cols) + 60, "variants": vs}], "samples": ["S1"], "haps": {"S1": {"chrA": haps}}, "reads": [], "ploidy": p, "het_index": het_index, "multi": multi, "design": dname, "prephase": prephase}
    for h, a, b, n in reads:
        world["reads"].append({"sample": "S1", "chrom": "chrA", "hap": h, "segs": [[het_index[a], het_index[b], 6, 6]], "n": n})
    return {"world": world, "opts": opts}


def materialize(world, d):
    """pw.materialize handles any ploidy and a second ALT allele; pre-phasing is added by a text edit"""
    paths = pw.materialize(world, d)
    if world.get("gt_override_2_as_1"):
        parsed = synth.parse_vcf(paths["vcf"])
        lines = list(parsed["header"]) + ["\t".join(["#CHROM", "POS", "ID", "REF", "ALT", "QUAL", "FILTER", "INFO", "FORMAT"] + parsed["samples"])]
        for rec in parsed["records"]:
            t = rec["line"].split("\t")
            t[9] = "/".join(sorted(("1" if a == "2" else a) for a in t[9].split("/")))
            lines.append("\t".join(t))
        with open(paths["vcf"], "w") as f:
            f.write("\n".join(lines) + "\n")
    if world.get("dup"):
        # a second record on the coordinate of a heterozygous record (another ALT allele, as after `bcftools norm -m-`):
        # ID "dup"; the reader keeps the first record of a coordinate, the second one must be passed through
        kind, at = world["dup"]
        parsed = synth.parse_vcf(paths["vcf"])
        lines = list(parsed["header"]) + ["\t".join(["#CHROM", "POS", "ID", "REF", "ALT", "QUAL", "FILTER", "INFO", "FORMAT"] + parsed["samples"])]
        P = world["ploidy"]
        for ri, rec in enumerate(parsed["records"]):
            lines.append(rec["line"])
            if ri == world["het_index"][at]:
                t = rec["line"].split("\t")
                t[2] = "dup"
                t[4] = [b for b in "ACGT" if b != t[3] and b not in t[4].split(",")][0]
                gt = {"hom": ["1"] * P, "het1": ["0"] * (P - 1) + ["1"], "hetmost": ["0"] + ["1"] * (P - 1)}[kind]
                t[8] = "GT"
                t[9:] = ["/".join(gt)] * len(parsed["samples"])
                lines.append("\t".join(t))
        with open(paths["vcf"], "w") as f:
            f.write("\n".join(lines) + "\n")
    if not world["prephase"]:
        return paths
    parsed = synth.parse_vcf(paths["vcf"])
    lines = list(parsed["header"]) + [synth.FORMAT_LINES["PS"]]
    lines.append("\t".join(["#CHROM", "POS", "ID", "REF", "ALT", "QUAL", "FILTER", "INFO", "FORMAT"] + parsed["samples"]))
    entries = world["haps"]["S1"]["chrA"]
    for ri, rec in enumerate(parsed["records"]):
        t = rec["line"].split("\t")
        e = entries[ri]
        if e != "miss" and len(set(e)) > 1 and ri in world["het_index"][:2]:
            t[8] = "GT:PS"
            t[9] = "|".join(map(str, e)) + ":61"
        lines.append("\t".join(t))
    with open(paths["vcf"], "w") as f:
        f.write("\n".join(lines) + "\n")
    return paths


_scratch = None


def judge(inst):
    global _scratch
    from whatshap.cli.polyphase import run_polyphase

    if _scratch is None:
        _scratch = synth.Scratch("c15")
    d = os.path.join(_scratch.path, f"p{os.getpid()}")
    os.makedirs(d, exist_ok=True)
    for f in os.listdir(d):
        os.unlink(os.path.join(d, f))
    world, opts = inst["world"], dict(inst["opts"])
    p = world["ploidy"]
    viols = []

    def V(clause, detail):
        return {"clause": clause, "signature": "c15:" + clause, "detail": detail + f" [ploidy {p} design {world['design']} opts {inst['opts']} haps {world['haps']['S1']['chrA']}]", "instance": inst}

    paths = materialize(world, d)
    out = os.path.join(d, "out.vcf")
    try:
        with open(out, "w") as f:
            run_polyphase([paths["bam"]], paths["vcf"], ploidy=p, reference=paths["fasta"], output=f, write_command_line_header=False, **opts)
    except Exception as e:  # noqa
        import traceback

        tb = traceback.extract_tb(e.__traceback__)
        where = "; ".join(f"{os.path.basename(x.filename)}:{x.lineno}" for x in tb[-3:])
        return [V("error", f"run_polyphase failed: {type(e).__name__}: {e} @ {where}")], False
    inp = synth.parse_vcf(paths["vcf"])
    res = synth.parse_vcf(out)
    distrust = opts.get("distrust_genotypes", False)
    if len(inp["records"]) != len(res["records"]):
        return [V("record-count", f"{len(inp['records'])} in, {len(res['records'])} out")], False
    nphased_total = 0
    if world.get("dup"):
        for a, b in zip(inp["records"], res["records"]):
            if a["id"] == "dup" and a["line"] != b["line"]:
                viols.append(V("duplicate-position", f"second record on coordinate {a['pos']} (ALT {a['alt']}) is not passed through: {a['line'].split(chr(9))[8:]} -> {b['line'].split(chr(9))[8:]}"))
        for pr in (inp, res):
            pr["records"] = [r for r in pr["records"] if r["id"] != "dup"]
        if len(inp["records"]) != len(res["records"]):
            return viols + [V("record-count", "records lost next to a duplicate position")], False
    for ri, (a, b) in enumerate(zip(inp["records"], res["records"])):
        for key in ("chrom", "pos", "id", "ref", "alt", "filter", "info"):
            if a[key] != b[key]:
                viols.append(V("passthrough", f"record {a['pos']}: {key} {a[key]} -> {b[key]}"))
    pos_of = {i: inp["records"][i]["pos"] for i in range(len(inp["records"]))}
    for si, sname in enumerate(inp["samples"]):
        phased = {}
        for ri, (a, b) in enumerate(zip(inp["records"], res["records"])):
            gi, _ = synth.gt_parse(a["calls"][si].get("GT"))
            go, po = synth.gt_parse(b["calls"][si].get("GT"))
            ph = synth.decode_phase(b["calls"][si])
            if a["chrom"] != "chrA":
                # chromosomes without two read-connected heterozygous variants: nothing to phase
                if ph is not None or po:
                    viols.append(V("phased-uncovered", f"{sname} record {a['chrom']}:{a['pos']}: {b['calls'][si]} is phased although no two heterozygous variants of that chromosome are connected by reads"))
                if (gi is None) != (go is None) or (gi is not None and sorted(map(str, gi)) != sorted(map(str, go))):
                    viols.append(V("genotype", f"{sname} record {a['chrom']}:{a['pos']}: GT {a['calls'][si].get('GT')} -> {b['calls'][si].get('GT')}"))
                continue
            if not distrust:
                if (gi is None) != (go is None) or (gi is not None and sorted(map(str, gi)) != sorted(map(str, go))):
                    viols.append(V("genotype", f"{sname} record {a['pos']}: GT {a['calls'][si].get('GT')} -> {b['calls'][si].get('GT')}: alleles / multiplicities differ"))
            if ph is not None:
                if go is None or None in go or len(set(go)) < 2:
                    viols.append(V("phased-homozygous", f"{sname} record {a['pos']}: {b['calls'][si]} is phased but not heterozygous"))
                if ph[0] in ("HP-malformed",):
                    viols.append(V("malformed", f"{sname} record {a['pos']}: {b['calls'][si]}"))
                else:
                    phased[ri] = ph[0]
        nphased_total += len(phased)
        # block structure over the read-covered heterozygous variants of this sample
        if distrust:
            continue
        entries = world["haps"][sname]["chrA"]
        het = {i for i, e in enumerate(entries) if e != "miss" and len(set(e)) > 1}
        if world.get("gt_override_2_as_1"):
            # heterozygosity as stated by the (overridden) VCF genotype
            het = {i for i, e in enumerate(entries) if e != "miss" and len({(1 if x == 2 else x) for x in e}) > 1}
        covered = set()
        for r in world["reads"]:
            if r["sample"] != sname:
                continue
            if r["chrom"] != "chrA":
                continue
            cov = [i for i in het if any(sg[0] <= i <= sg[1] for sg in r["segs"])]
            if len(cov) >= max(2, opts.get("min_overlap", 2)):
                covered.update(cov)
        Vlist = sorted(covered)
        Vpos = [pos_of[i] for i in Vlist]
        sets = {}
        for ri, name in phased.items():
            if ri not in covered:
                viols.append(V("phased-uncovered", f"{sname} record {pos_of[ri]} is phased (set {name}) but no kept read covers it"))
                continue
            sets.setdefault(name, []).append(Vlist.index(ri))
        prev_end = -1
        prev_name = None
        for name in sorted(sets, key=lambda n: min(sets[n])):
            idx = sorted(sets[name])
            if name not in Vpos:
                viols.append(V("name", f"{sname}: phase set {name} is not named after a read-covered heterozygous variant of this sample ({Vpos})"))
                continue
            ni = Vpos.index(name)
            if ni > idx[0]:
                viols.append(V("name", f"{sname}: phase set {name} is named after a variant behind its first member {Vpos[idx[0]]}"))
            if ni <= prev_end:
                viols.append(V("name", f"{sname}: phase set {name} is named after a variant inside the preceding set (which reaches {Vpos[prev_end]})"))
            if idx[0] <= prev_end:
                viols.append(V("overlap", f"{sname}: phase sets {prev_name} and {name} are not disjoint stretches: {sets}"))
            if prev_name is not None and name < prev_name:
                viols.append(V("order", f"{sname}: phase sets are not ordered by name along the chromosome: {prev_name} before {name}"))
            prev_end = max(prev_end, idx[-1])
            prev_name = name
    return viols[:5], nphased_total >= 2


def run_one(inst):
    viols, nt = judge(inst)
    return Result(nontrivial=nt, violations=viols, outcome=(inst["world"]["ploidy"], inst["world"]["design"], bool(viols)))


def run(rep, tier, seed, only=None):
    st = par.explore(lambda: worlds(tier), run_one, label="C15")
    rep.add_violations(st.violations)
    rep.add_crashes(st.crashes, "C15")
    rep.coverage.update(
        evaluations=st.evaluations,
        distinct_nontrivial=st.nontrivial,
        rule="every (ploidy, haplotype matrix up to row order, read design, -B, tag) of the alphabet (matrices thinned deterministically where the count exceeds the budget; see 'thinned'); "
        "non-trivial = at least two variants phased",
        samples=[{"ploidy": s["world"]["ploidy"], "haps": s["world"]["haps"]["S1"]["chrA"], "design": s["world"]["design"], "opts": s["opts"]} for s in st.samples[:4]],
        exhaustive=True,
        thinned="for (ploidy, k) combinations with more than 600 (quick) / 1200 (thorough) matrices every n-th matrix of the canonical enumeration is taken",
        distinct_outcomes=len(st.outcomes),
    )
    rep.assumptions += ["error-free reads; SNVs 40 bp apart", "with --distrust-genotypes only the pass-through clauses are judged"]


def replay(v):
    return judge(v["instance"])[0]
