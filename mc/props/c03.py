"""C03  Phase sets are exactly the read-connected components, named by leftmost variant.

Every read/variant incidence structure of a bounded alphabet (reads = arbitrary subsets of
>= 2 of k <= 5 variants, realised with reference skips or mate pairs; sets of <= 3 read kinds x
haplotype of each read x tag; selection-active slice; trio slice with homozygous members) is
phased by run_whatshap; the PS / HP values of the output are compared with the components of
the graph spanned by the reads that the trace hook reports as handed to the solver.
"""
import itertools
import os

from mc import par, phaseworld as pw, synth
from mc.par import Result

LEVEL = "exploration"


def subsets(k):
    out = []
    for n in range(2, k + 1):
        out += list(itertools.combinations(range(k), n))
    return out


def segments(sub):
    segs = []
    start = prev = sub[0]
    for x in sub[1:]:
        if x != prev + 1:
            segs.append((start, prev))
            start = x
        prev = x
    segs.append((start, prev))
    return segs


def single_worlds(tier):
    T = tier == "thorough"
    seed = int(os.environ.get("VERIF_SEED", "0")) + 31
    for k in (2, 3, 4, 5):
        subs = subsets(k)
        maxset = 3
        for n in range(1, maxset + 1):
            for chosen in itertools.combinations(subs, n):
                hapsets = list(itertools.product((0, 1), repeat=n))
                if k == 5 and n == 3 and not T:
                    hapsets = hapsets[:4]
                for haps in hapsets:
                    for tag in ("PS", "HP") if (k <= 4 or T or n == 1) else ("PS",):
                        yield mk_single(seed, k, chosen, haps, 1), dict(tag=tag), None
    # coordinates above one million (seven-digit phase set ids), with the PS tag already declared in the input header -
    # as Integer, and with the non-standard type Float (which must be refused, or else handled without losing digits)
    for chosen in (((0, 1), (2, 3)), ((0, 1), (1, 2), (2, 3)), ((0, 2), (1, 3))):
        for ps_type in ("Integer", "Float"):
            for tag in ("PS", "HP"):
                w = mk_single(seed, 4, chosen, tuple(i % 2 for i in range(len(chosen))), 1, base=1234400)
                w["ps_header_type"] = ps_type
                yield w, dict(tag=tag), None
    # single sample with --include-homozygous (trusted genotypes): homozygous variants inside separate read components
    # (no master block for a single individual)
    for k, chosen in ((4, ((0, 1), (2, 3))), (5, ((0, 1), (2, 3, 4))), (6, ((0, 1), (2, 3), (4, 5))), (4, ((0, 1), (1, 2, 3)))):
        for homs in itertools.product((False, True), repeat=k):
            if not any(homs) or all(homs):
                continue
            for tag in ("PS", "HP"):
                w = mk_single(seed, k, chosen, tuple(i % 2 for i in range(len(chosen))), 1)
                for i, h in enumerate(homs):
                    if h:
                        w["haps"]["S1"]["chrA"][i] = "hom1" if i % 2 else "hom0"
                yield w, dict(tag=tag, include_homozygous=True), None
    # the first variant sits on the very first base of the contig (VCF POS 1, internal position 0)
    for k in (2, 3, 4):
        subs = subsets(k)
        for n in (1, 2):
            for chosen in itertools.combinations(subs, n):
                for tag in ("PS", "HP"):
                    yield mk_single(seed, k, chosen, tuple(i % 2 for i in range(n)), 1, base=-60), dict(tag=tag), None
    # the input already carries phase: on the heterozygous SNVs (re-phased by the run) and on a two-ALT record in
    # between, which the run never phases itself - in the output it must not sit in a phase set
    for chosen in (((0, 2, 3),), ((0, 2), (2, 3)), ((0, 3), (2, 3))):
        for tag in ("PS", "HP"):
            w = mk_single(seed, 4, chosen, tuple(i % 2 for i in range(len(chosen))), 1)
            w["chroms"][0]["variants"][1]["multi"] = True
            w["haps"]["S1"]["chrA"][1] = [1, 2]
            w["ps_header_type"] = "Integer"
            w["prephased"] = True
            yield w, dict(tag=tag), None
    # selection-active slice: three copies of each read, tiny coverage cap
    for k in (3, 4) + ((5,) if T else ()):
        subs = subsets(k)
        for n in (2, 3):
            for chosen in itertools.combinations(subs, n):
                for cap in (1, 2):
                    yield mk_single(seed, k, chosen, tuple(i % 2 for i in range(n)), 3), dict(tag="PS", max_coverage=cap), None
                    if T:
                        yield mk_single(seed, k, chosen, tuple((i + 1) % 2 for i in range(n)), 2), dict(tag="HP", max_coverage=cap), None


def mk_single(seed, k, chosen, haps, copies, base=0):
    vs = [{"pos": base + 60 + 40 * i, "kind": "SNV", "len": 1} for i in range(k)]
    world = {"seed": seed, "chroms": [{"name": "chrA", "length": base + 60 + 40 * k + 60, "variants": vs}], "samples": ["S1"], "haps": {"S1": {"chrA": [[0, 1] if i % 2 == 0 else [1, 0] for i in range(k)]}}, "reads": []}
    for sub, h in zip(chosen, haps):
        segs = segments(sub)
        world["reads"].append({"sample": "S1", "chrom": "chrA", "hap": h, "segs": [[a, b, 5, 5] for a, b in segs], "link": "pair" if len(segs) == 2 and (sub[0] + h) % 2 == 0 else "N", "n": copies})
    return world


VKINDS = ["H", "Fhom", "Mhom", "Chom"]


def trio_worlds(tier):
    T = tier == "thorough"
    seed = int(os.environ.get("VERIF_SEED", "0")) + 32
    for k in (2, 3) + ((4,) if T else ()):
        subs = subsets(k)
        for vk in itertools.product(VKINDS, repeat=k):
            if not T and k == 3 and sum(1 for x in vk if x != "H") > 2:
                continue
            read_menus = [()]
            for s in subs:
                read_menus.append((("C", s),))
                read_menus.append((("F", s),))
            if k >= 3:
                for s1, s2 in itertools.combinations(subs, 2):
                    read_menus.append((("C", s1), ("M", s2)))
                    if T:
                        read_menus.append((("F", s1), ("F", s2)))
            for menu in read_menus:
                for gh in (True, False):
                    if not T and not gh and len(menu) > 1:
                        continue
                    yield mk_trio(seed, k, vk, menu), dict(tag="PS", genetic_haplotyping=gh), [("C", "F", "M")]


def trio_disconnected_worlds(tier):
    """k = 4: two read-disconnected components ({0,1} and {2,3}) in a trio, every combination of members that
    are homozygous at the four variants, with / without genetic haplotyping, trusted and distrusted genotypes"""
    T = tier == "thorough"
    seed = int(os.environ.get("VERIF_SEED", "0")) + 33
    for vk in itertools.product(VKINDS, repeat=4):
        for menu in ((("C", (0, 1)), ("C", (2, 3))), (("F", (0, 1)), ("M", (2, 3))), (("M", (0, 1)), ("M", (2, 3)))):
            for gh in (True, False):
                for distrust in (False, True):
                    if not T and distrust and menu[0][0] != "M":
                        continue
                    opts = dict(tag="PS", genetic_haplotyping=gh)
                    if distrust:
                        opts["distrust_genotypes"] = True
                    yield mk_trio(seed, 4, vk, menu), opts, [("C", "F", "M")]
                    if gh and not distrust and menu[0][0] == "C":
                        # a further sample of the VCF that the PED file does not mention (phased on its own, and before
                        # the trio: its name sorts first) - what is decided for it must not leak into the family
                        w = mk_trio(seed, 4, vk, menu)
                        w["samples"] = ["A0", "F", "M", "C"]
                        w["haps"]["A0"] = {"chrA": [[0, 1], [1, 0], [0, 1], [1, 0]]}
                        for sub in ((0, 1), (2, 3)):
                            for h in (0, 1):
                                w["reads"].append({"sample": "A0", "chrom": "chrA", "hap": h, "segs": [[sub[0], sub[1], 5, 5]], "link": "N", "n": 1})
                        yield w, opts, [("C", "F", "M")]


def trio_contradicted_worlds(tier):
    """trio, --distrust-genotypes, k = 4, components {0,1} (child's reads) and {2,3} (mother's reads): the VCF
    claims 0/1 for a parent at one variant where all of that parent's reads (covering the variant and its partner)
    carry one allele, so that phasing may turn the call homozygous - and a homozygous call joins the master block"""
    T = tier == "thorough"
    seed = int(os.environ.get("VERIF_SEED", "0")) + 35
    for vk in itertools.product(VKINDS, repeat=4):
        for v in range(4):
            member = {"Fhom": "F", "Mhom": "M"}.get(vk[v])
            if member is None:
                continue
            if not T and sum(1 for x in vk if x in ("Fhom", "Mhom")) > 2:
                continue
            partner = v ^ 1
            for gh in (True, False) if T else (True,):
                for depth in (1, 3):
                    w = mk_trio(seed, 4, vk, (("C", (0, 1)), ("M", (2, 3)), (member, tuple(sorted((v, partner))))), depth=depth)
                    w["vcf_gt_override"] = {member: {"chrA": {v: "0/1"}}}
                    yield w, dict(tag="PS", genetic_haplotyping=gh, distrust_genotypes=True), [("C", "F", "M")]


def mk_trio(seed, k, vk, menu, depth=1):
    vs = [{"pos": 60 + 40 * i, "kind": "SNV", "len": 1} for i in range(k)]
    F, M, C = [], [], []
    for kind in vk:
        if kind == "H":
            f, m = [0, 1], [0, 1]
        elif kind == "Fhom":
            f, m = [0, 0], [0, 1]
        elif kind == "Mhom":
            f, m = [0, 1], [1, 1]
        else:
            f, m = [0, 1], [1, 0]
        F.append(f)
        M.append(m)
        C.append([f[0], m[1]])
    haps = {"F": {"chrA": F}, "M": {"chrA": M}, "C": {"chrA": C}}
    world = {"seed": seed, "chroms": [{"name": "chrA", "length": 60 + 40 * k + 60, "variants": vs}], "samples": ["F", "M", "C"], "haps": haps, "reads": []}
    for s, sub in menu:
        segs = segments(sub)
        for h in (0, 1):
            world["reads"].append({"sample": s, "chrom": "chrA", "hap": h, "segs": [[a, b, 5, 5] for a, b in segs], "link": "N", "n": depth})
    for s in ("F", "M", "C"):
        world["haps"][s]["chrA"] = ["hom0" if e == [0, 0] else "hom1" if e == [1, 1] else e for e in world["haps"][s]["chrA"]]
    return world


def components_of(positions, read_position_lists, master=None):
    """independent BFS components: {position: min position of its component}"""
    adj = {p: set() for p in positions}
    for ps in read_position_lists:
        ps = [p for p in ps if p in adj]
        for a in ps:
            for b in ps:
                if a != b:
                    adj[a].add(b)
    if master:
        ms = [p for p in master if p in adj]
        for a in ms:
            for b in ms:
                if a != b:
                    adj[a].add(b)
    comp = {}
    for p in sorted(positions):
        if p in comp:
            continue
        stack = [p]
        members = []
        seen = {p}
        while stack:
            x = stack.pop()
            members.append(x)
            for y in adj[x]:
                if y not in seen:
                    seen.add(y)
                    stack.append(y)
        m = min(members)
        for x in members:
            comp[x] = m
    return comp


def rec_gt_called(parsed, chrom, pos0, sample):
    si = parsed["samples"].index(sample)
    for rec in parsed["records"]:
        if rec["chrom"] == chrom and rec["pos"] - 1 == pos0:
            g, _ = synth.gt_parse(rec["calls"][si].get("GT"))
            return g is not None and None not in g
    return False


_scratch = None


def judge(inst):
    global _scratch
    if _scratch is None:
        _scratch = synth.Scratch("c03")
    d = os.path.join(_scratch.path, f"p{os.getpid()}")
    os.makedirs(d, exist_ok=True)
    for f in os.listdir(d):
        os.unlink(os.path.join(d, f))
    world, opts, trios = inst
    viols = []

    def V(clause, detail):
        return {"clause": clause, "signature": "c03:" + clause, "detail": detail, "instance": {"world": world, "opts": opts, "trios": trios}}

    paths = pw.materialize(world, d)
    kw = dict(opts)
    if trios:
        kw["ped"] = synth.write_ped(os.path.join(d, "fam.ped"), trios)
    rl = os.path.join(d, "readlist.tsv")
    if not world["reads"]:
        kw["phase_inputs"] = []  # an empty BAM is rejected; without reads there is no alignment file
    if world.get("ps_header_type"):
        txt = open(paths["vcf"]).read()
        with open(paths["vcf"], "w") as f:
            f.write(txt.replace("##FORMAT=<ID=GT", '##FORMAT=<ID=PS,Number=1,Type=%s,Description="Phase set">\n##FORMAT=<ID=GT' % world["ps_header_type"], 1))
    if world.get("prephased"):
        pv = synth.parse_vcf(paths["vcf"])
        lines = list(pv["header"]) + ["\t".join(["#CHROM", "POS", "ID", "REF", "ALT", "QUAL", "FILTER", "INFO", "FORMAT"] + pv["samples"])]
        first = pv["records"][0]["pos"]
        for rec in pv["records"]:
            t = rec["line"].split("\t")
            g = t[9].split(":")[0].replace("/", "|")
            t[8], t[9] = "GT:PS", f"{g}:{first}"
            lines.append("\t".join(t))
        with open(paths["vcf"], "w") as f:
            f.write("\n".join(lines) + "\n")
    parsed, traces, err = pw.run_phase(paths, d, read_list_filename=rl, **kw)
    if err and world.get("ps_header_type") == "Float" and "non-standard type" in err:
        return [], True, False  # refused with the message meant for non-Integer PS declarations
    if err:
        return [V("error", f"whatshap phase failed: {err}")], False, False
    nontrivial = cut = False
    for t in traces:
        fam = t["family"]
        acc = t["accessible_positions"]
        reads = [[x[0] for x in r["variants"]] for r in t["reads"]]
        # genotypes as stated by the OUTPUT (equal to the input unless --distrust-genotypes changed them)
        out_hom = {}
        for rec in parsed["records"]:
            if rec["chrom"] != t["chromosome"]:
                continue
            for si, s in enumerate(parsed["samples"]):
                g, _ = synth.gt_parse(rec["calls"][si].get("GT"))
                out_hom[(s, rec["pos"] - 1)] = g is None or None in g or len(set(g)) == 1
        if opts.get("distrust_genotypes"):
            # with distrusted genotypes the reads carry every variant; a read links only the variants that come out
            # phased in its own sample (a call the run leaves homozygous or undecided is no link of a chain of
            # phased variants)
            id2name = {v: k for k, v in t["sample_ids"].items()}
            out_phased = set()
            for rec in parsed["records"]:
                if rec["chrom"] == t["chromosome"]:
                    for si, s in enumerate(parsed["samples"]):
                        if synth.decode_phase(rec["calls"][si]):
                            out_phased.add((s, rec["pos"] - 1))
            reads = []
            for r in t["reads"]:
                reads.append([x[0] for x in r["variants"] if (id2name[r["sample_id"]], x[0]) in out_phased])
        # cross-check the traced reads against the read list written by the tool
        names_trace = sorted(r["name"] for r in t["reads"])
        master = None
        if len(fam) > 1 and opts.get("genetic_haplotyping", True):
            # positions homozygous in some family member (known from the scenario)
            master = []
            for ci, c in enumerate(world["chroms"]):
                if c["name"] != t["chromosome"]:
                    continue
                for vi, v in enumerate(c["variants"]):
                    scen = any(world["haps"][s][c["name"]][vi] in ("hom0", "hom1") for s in fam)
                    if opts.get("distrust_genotypes"):
                        scen = any(out_hom.get((s, v["pos"]), False) and rec_gt_called(parsed, t["chromosome"], v["pos"], s) for s in fam)
                    if scen and v["pos"] in acc:
                        master.append(v["pos"])
        comp = components_of(acc, reads, master)
        nraw = sum(r.get("n", 1) for r in world["reads"])
        if len(t["reads"]) < nraw and len(fam) == 1:
            cut = True
        # trace's own component map must agree (diagnostic of the hook, same partition)
        tcomp = {p: c for p, c in t["components"]}
        for si, s in enumerate(parsed["samples"]):
            if s not in fam:
                continue
            phased = {}
            for rec in parsed["records"]:
                if rec["chrom"] != t["chromosome"]:
                    continue
                ph = synth.decode_phase(rec["calls"][si])
                if ph:
                    phased[rec["pos"] - 1] = ph[0]
            ps = sorted(phased)
            if len(ps) >= 2:
                nontrivial = True
            for p in ps:
                if p not in comp:
                    viols.append(V("phased-inaccessible", f"sample {s}: position {p + 1} is phased but not covered by any read used for phasing"))
                    continue
                if not isinstance(phased[p], int):
                    viols.append(V("name", f"sample {s}: variant at {p + 1} carries the phase set id {phased[p]!r}, which is not an integer position"))
                    continue
                if phased[p] != comp[p] + 1:
                    viols.append(V("name", f"sample {s}: variant at {p + 1} has phase set {phased[p]}, its read-connected component starts at {comp[p] + 1} (reads {reads}, master {master})"))
            for a, b in itertools.combinations([p for p in ps if p in comp], 2):
                if (phased[a] == phased[b]) != (comp[a] == comp[b]):
                    viols.append(V("partition", f"sample {s}: variants {a + 1},{b + 1}: same set = {phased[a] == phased[b]}, connected by reads = {comp[a] == comp[b]} (reads {reads}, master {master})"))
    # the read list names exactly the traced reads
    if os.path.exists(rl):
        listed = sorted(line.split("\t")[0] for line in open(rl) if not line.startswith("#"))
        traced = sorted(r["name"] for t in traces for r in t["reads"])
        if listed != traced:
            viols.append(V("read-list", f"read list {listed} differs from the traced reads {traced}"))
    return viols[:5], nontrivial, cut


def run_one(inst):
    viols, nt, cut = judge(inst)
    return Result(nontrivial=nt, violations=viols, extra={"selection_cut": 1} if cut else None, outcome=(bool(inst[2]), nt, cut, bool(viols)))


def run(rep, tier, seed, only=None):
    def space():
        if not only or "single" in only:
            yield from single_worlds(tier)
        if not only or "trio" in only:
            yield from trio_worlds(tier)
            yield from trio_disconnected_worlds(tier)
            yield from trio_contradicted_worlds(tier)

    st = par.explore(space, run_one, label="C03")
    rep.add_violations(st.violations)
    rep.add_crashes(st.crashes, "C03")
    rep.coverage.update(
        evaluations=st.evaluations,
        distinct_nontrivial=st.nontrivial,
        rule="every set of read kinds (subsets of >= 2 of k variants) x haplotype assignment x tag, selection-active and trio slices; "
        "non-trivial = at least two variants phased in some sample",
        samples=[{"reads": [r["segs"] for r in s[0]["reads"]], "opts": s[1]} for s in st.samples[:4]],
        exhaustive=True,
        worlds_where_selection_discarded_reads=st.extra.get("selection_cut", 0),
        distinct_outcomes=len(st.outcomes),
    )
    rep.assumptions += [
        "reads used for phasing = the reads the trace hook reports as handed to the solver (cross-checked against --output-read-list)",
        "with --distrust-genotypes the reads carry every variant: a read links the variants that come out phased in its own sample, and the pedigree master block is formed by the positions at which some family member is homozygous in the output",
    ]


def replay(v):
    i = v["instance"]
    return judge((i["world"], i["opts"], [tuple(t) for t in i["trios"]] if i["trios"] else None))[0]
