"""C14  split distributes every read to exactly the outputs its haplotype entry selects.

All (reads file, haplotype list, option vector) combinations of a bounded alphabet are run
through whatshap.cli.split.run_split; every requested output is compared record by record
with the subsequence of the input that the list sends there, and the read-length histogram
with the number of records written.
"""
import gzip
import itertools
import os

import pysam

from mc import par, synth
from mc.par import Result

LEVEL = "exploration"

NAMES = ["a", "b", "c"]
EXTRA = "z"  # listed but not among the reads
# (chromosome, phase set) of every list entry; layouts 1 and 2 re-use a phase set id on a second chromosome
BLOCKS = [
    {"a": ("chr1", "11"), "b": ("chr1", "11"), "c": ("chr1", "77"), "z": ("chr2", "5")},
    {"a": ("chr1", "11"), "b": ("chr1", "11"), "c": ("chr1", "77"), "z": ("chr2", "77")},
    {"a": ("chr1", "11"), "b": ("chr1", "77"), "c": ("chr1", "77"), "z": ("chr2", "11")},
]


def seq_of(i, length):
    return "ACGTACGT"[i % 4 : i % 4 + length]


def write_reads(path, fmt, reads):
    """reads: list of (name, length).  Returns canonical records."""
    recs = []
    if fmt == "bam":
        hdr = pysam.AlignmentHeader.from_dict({"HD": {"VN": "1.6", "SO": "unknown"}})
        with pysam.AlignmentFile(path, "wb", header=hdr) as f:
            for i, (name, ln) in enumerate(reads):
                s = pysam.AlignedSegment(hdr)
                s.query_name = name
                s.flag = 4 | (0x40 if i % 2 == 0 else 0)
                s.reference_id = -1
                s.reference_start = -1
                s.mapping_quality = 0
                if ln > 0:
                    s.query_sequence = seq_of(i, ln)
                    s.query_qualities = pysam.qualitystring_to_array("".join(chr(33 + 20 + i + k) for k in range(ln)))
                s.set_tags([("zi", i, "i"), ("zs", f"t{i}", "Z")])
                f.write(s)
                recs.append((name, seq_of(i, ln) if ln else None, tuple(20 + i + k for k in range(ln)) if ln else None, s.flag, (("zi", i), ("zs", f"t{i}"))))
    else:
        opener = gzip.open if path.endswith(".gz") else open
        with opener(path, "wt") as f:
            for i, (name, ln) in enumerate(reads):
                q = "".join(chr(33 + 20 + i + k) for k in range(ln))
                comment = f"c{i}" if i % 2 == 0 else ""
                f.write(f"@{name}{' ' + comment if comment else ''}\n{seq_of(i, ln)}\n+\n{q}\n")
                recs.append((name, seq_of(i, ln), q, comment or None))
    return recs


def read_output(path, fmt):
    out = []
    if fmt == "bam":
        with pysam.AlignmentFile(path, check_sq=False) as f:
            for s in f:
                out.append((s.query_name, s.query_sequence, None if s.query_qualities is None else tuple(s.query_qualities), s.flag, tuple(sorted(s.get_tags()))))
    else:
        with pysam.FastxFile(path) as f:
            for r in f:
                out.append((r.name, r.sequence, r.quality, r.comment or None))
    return out


def space(tier):
    T = tier == "thorough"
    maxn = 4 if T else 3
    read_seqs = []
    for n in range(1, maxn + 1):
        for names in itertools.product(NAMES, repeat=n):
            # canonical up to renaming? names are distinguishable through the list, keep all
            read_seqs.append(names)
    length_patterns = [lambda i: i % 3 + 1, lambda i: (i + 1) % 3]  # second pattern contains zero-length reads (BAM only)
    for ploidy in (2, 3) + ((4,) if T else ()):
        haps = ["absent", "none"] + [f"H{i}" for i in range(1, ploidy + 1)]
        if ploidy > 2:
            assigns = [a for a in itertools.product(haps, repeat=3) if len(set(a)) >= 2][:: (1 if T else 3)]
        else:
            assigns = list(itertools.product(haps, repeat=3))
        for names in read_seqs:
            if ploidy > 2 and len(names) < 2:
                continue
            for assign in assigns:
                for zextra in (False, True):
                    for fmt in ("bam", "fastq", "fastq.gz", "fq", "fq.gz"):
                        if fmt == "fastq.gz" and not (T or len(names) == 2):
                            continue
                        if len(names) == 4 and fmt != "bam":
                            continue  # four reads (thorough tier): BAM only, two list formats (the full product takes > 1 h)
                        if fmt in ("fq", "fq.gz") and not (len(names) == 2 and ploidy == 2 and not zextra and (T or assign[0] != "absent")):
                            continue  # the other documented FASTQ file names, on a slice
                        if fmt == "fastq" and not T and len(names) == 3 and zextra:
                            continue
                        if not T and ploidy == 3 and (fmt != "bam" or len(names) == 3):
                            continue
                        for lp in (0, 1, 2):
                            if lp == 1 and fmt != "bam":
                                continue
                            if lp == 2 and not (len(names) >= 2 and fmt in ("bam", "fastq") and (T or ploidy == 2)):
                                continue  # all reads of one length: histogram rows shared between outputs
                            for cols, header in ((2, False), (2, True), (4, True), (4, False)):
                                if not T and (cols, header) in ((2, True), (4, False)) and len(names) == 3:
                                    continue
                                if len(names) == 4 and (cols, header) in ((2, True), (4, False)):
                                    continue
                                if lp == 2 and not T and (cols, header) != (2, False):
                                    continue
                                for ov_ in option_vectors(ploidy, names, assign, zextra, fmt, lp, cols, header, T):
                                    if lp == 2 and not ov_["add_untagged"] and not T:
                                        continue
                                    yield ov_
                                    if lp == 0 and ploidy == 2 and not ov_["largest"] and ((T and fmt in ("bam", "fastq")) or (fmt == "bam" and len(names) == 2 and (cols, header) in ((2, False), (4, True)))):
                                        yield dict(ov_, listdup=True)
                                    if "c" in names and assign[2] != "absent" and lp == 0 and ploidy == 2 and fmt in ("bam", "fastq") and (header or assign[0] != "absent" or assign[1] != "absent") and (T or (all(ov_["req"]) and not ov_["largest"])):
                                        yield dict(ov_, hashname=True)
                                    if lp == 0 and ploidy == 2 and fmt in ("bam", "fastq") and len(set(names)) >= 2 and (T or (all(ov_["req"]) and not ov_["largest"] and (cols, header) == (2, False))):
                                        yield dict(ov_, slashname=True)


def option_vectors(ploidy, names, assign, zextra, fmt, lp, cols, header, T):
    base = dict(ploidy=ploidy, names=list(names), assign=list(assign), zextra=zextra, fmt=fmt, lp=lp, cols=cols, header=header)
    listed = [n for n, a in zip(NAMES, assign) if a != "absent"] + ([EXTRA] if zextra else [])
    if not listed:
        return
    nout = ploidy + 1
    # requested outputs: all; all but untagged; only h1; untagged + last
    req_sets = [tuple([True] * nout), tuple([False] + [True] * ploidy), tuple([False, True] + [False] * (ploidy - 1)), tuple([True] + [False] * (ploidy - 1) + [True])]
    if ploidy == 2:
        req_sets.append((True, False, False))  # only the untagged reads are asked for
    if T and len(names) < 4:
        req_sets = [r for r in itertools.product((False, True), repeat=nout) if any(r)]
    style = "h12" if ploidy == 2 else "o"
    for req in req_sets:
        if style == "o" and not all(req[1:]):
            continue  # -o must be given once per haplotype
        for add_untagged in (False, True):
            for discard in (False, True):
                for largest, layout in ((False, 0), (True, 0), (True, 1), (True, 2)) if cols == 4 else ((False, 0),):
                    BLOCK = BLOCKS[layout]
                    if layout and not (T or (all(req) and not discard)):
                        continue
                    if largest:
                        # no ties in block size (number of tagged reads per phase set)
                        cnt = {}
                        for n, a in list(zip(NAMES, assign)) + ([(EXTRA, "H1")] if zextra else []):
                            if a.startswith("H"):
                                cnt.setdefault(BLOCK[n][0], {}).setdefault(BLOCK[n][1], 0)
                                cnt[BLOCK[n][0]][BLOCK[n][1]] += 1
                        if any(sorted(c.values())[-1] == sorted(c.values() or [0, 0])[-2] for c in cnt.values() if len(c) > 1):
                            continue
                        if not cnt:
                            continue
                    d = dict(base, req=list(req), add_untagged=add_untagged, discard=discard, largest=largest, style=style, layout=layout)
                    yield d
                    if ploidy == 2 and all(req[1:]) and not T:
                        pass
    if ploidy == 2:
        # the same through -o twice
        yield dict(base, req=[True, True, True], add_untagged=False, discard=False, largest=False, style="o")
        yield dict(base, req=[False, True, True], add_untagged=True, discard=True, largest=False, style="o")


_scratch = None


def judge(inst):
    global _scratch
    from whatshap.cli.split import run_split

    if _scratch is None:
        _scratch = synth.Scratch("c14")
    d = os.path.join(_scratch.path, f"p{os.getpid()}")
    os.makedirs(d, exist_ok=True)
    ploidy, names, assign, fmt = inst["ploidy"], inst["names"], inst["assign"], inst["fmt"]
    BLOCK = BLOCKS[inst.get("layout", 0)]
    # "hashname": read c is called '#c' in the reads file and in the list (a legal name; only the FIRST line of a list
    # that starts with '#' is a header)
    ren = (lambda n: "#c" if n == "c" else n) if inst.get("hashname") else (lambda n: n)
    if inst.get("slashname"):
        # mate-style names: a and b are p/1 and p/2 (different list entries), c is 'p' itself
        ren = lambda n: {"a": "p/1", "b": "p/2", "c": "p"}.get(n, n)  # noqa
    lens = [(i % 3 + 1) if inst["lp"] == 0 else ((i + 1) % 3 if inst["lp"] == 1 else 2) for i in range(len(names))]
    reads_path = os.path.join(d, "reads." + fmt)
    recs = write_reads(reads_path, fmt, list(zip([ren(n) for n in names], lens)))
    list_path = os.path.join(d, "list.tsv")
    entries = [(ren(n), a) for n, a in zip(NAMES, assign) if a != "absent"] + ([(EXTRA, "H1")] if inst["zextra"] else [])
    BLOCK = dict(BLOCK, **{"#c": BLOCK["c"], "p/1": BLOCK["a"], "p/2": BLOCK["b"], "p": BLOCK["c"]})
    with open(list_path, "w") as f:
        if inst["header"]:
            f.write("#readname\thaplotype" + ("\tphaseset\tchromosome" if inst["cols"] == 4 else "") + "\n")
        for n, a in entries:
            # "listdup": every line twice, as haplotag writes one line per primary alignment of a read pair
            for _rep in range(2 if inst.get("listdup") else 1):
                if inst["cols"] == 4:
                    f.write(f"{n}\t{a}\t{BLOCK[n][1] if a != 'none' else 'none'}\t{BLOCK[n][0]}\n")
                else:
                    f.write(f"{n}\t{a}\n")
    ext = "bam" if fmt == "bam" else fmt
    outs = [os.path.join(d, f"out{i}.{ext}") if r else None for i, r in enumerate(inst["req"])]
    hist = os.path.join(d, "hist.tsv")
    kw = dict(reads_file=reads_path, list_file=list_path, output_untagged=outs[0], add_untagged=inst["add_untagged"], only_largest_block=inst["largest"], discard_unknown_reads=inst["discard"], read_lengths_histogram=hist)
    if inst["style"] == "h12":
        kw.update(output_h1=outs[1], output_h2=outs[2])
    else:
        kw.update(outputs=outs[1:])
    viols = []

    def V(clause, detail):
        sig = "c14:" + clause
        if clause in ("output", "partition") and inst["discard"] and len(set(names)) < len(names):
            sig += ":discard-unknown+repeated-names"
        if clause == "histogram" and inst["add_untagged"]:
            sig += ":add-untagged"
        return {"clause": clause, "signature": sig, "detail": detail, "instance": inst}

    for p in outs + [hist]:
        if p and os.path.exists(p):
            os.unlink(p)
    try:
        run_split(**kw)
    except Exception as e:  # noqa
        return [V("error", f"run_split failed: {type(e).__name__}: {e}")], False
    # ---- reference model
    hap = {}
    for n, a in entries:
        hap[n] = 0 if a == "none" else int(a[1:])
    if inst["largest"]:
        cnt = {}
        for n, a in entries:
            if a.startswith("H"):
                cnt.setdefault(BLOCK[n][0], {}).setdefault(BLOCK[n][1], []).append(n)
        keep = set()
        for chrom, blocks in cnt.items():
            best = max(blocks.values(), key=len)
            keep.update(best)
        hap = {n: (h if n in keep else 0) for n, h in hap.items()}
    known = {n for n, _ in entries}
    expected = [[] for _ in range(ploidy + 1)]
    for rec in recs:
        n = rec[0]
        if inst["discard"] and n not in known:
            continue
        h = hap.get(n, 0)
        if h == 0:
            expected[0].append(rec)
            if inst["add_untagged"]:
                for i in range(1, ploidy + 1):
                    expected[i].append(rec)
        else:
            expected[h].append(rec)
    got = []
    for i, p in enumerate(outs):
        if p is None:
            got.append(None)
            continue
        if not os.path.exists(p):
            viols.append(V("output", f"requested output {i} was not written"))
            got.append(None)
            continue
        g = read_output(p, "bam" if fmt == "bam" else "fastq")
        got.append(g)
        if fmt == "bam":
            exp = [(r[0], r[1], r[2], r[3], tuple(sorted(r[4]))) for r in expected[i]]
        else:
            exp = expected[i]
        if g != exp:
            viols.append(V("output", f"output {i}: got {[x[0] for x in g]}, expected {[x[0] for x in exp]} (input {names}, list {entries})" + ("" if [x[0] for x in g] != [x[0] for x in exp] else f" records differ: {g} vs {exp}")))
    if all(inst["req"]) and not inst["add_untagged"] and not inst["discard"] and all(g is not None for g in got):
        allout = sorted((x for g in got for x in g), key=repr)
        allin = sorted(((r[0], r[1], r[2], r[3], tuple(sorted(r[4]))) if fmt == "bam" else r for r in recs), key=repr)
        if allout != allin:
            viols.append(V("partition", f"outputs do not partition the input: {[x[0] for x in allout]} vs {[x[0] for x in allin]}"))
    # histogram
    if os.path.exists(hist):
        cols = None
        sums = None
        with open(hist) as f:
            for line in f:
                t = line.rstrip("\n").split("\t")
                if line.startswith("#"):
                    cols = t
                    sums = [0] * (len(t) - 1)
                    continue
                for k, x in enumerate(t[1:]):
                    sums[k] += int(x)
        if sums is not None:
            for i, g in enumerate(got):
                if g is None:
                    continue
                if i < len(sums) and sums[i] != len(g):
                    viols.append(V("histogram", f"histogram column {cols[i + 1]} sums to {sums[i]} but {len(g)} reads were written to output {i}"))
    else:
        viols.append(V("histogram", "histogram file not written"))
    nontrivial = sum(1 for e in expected if e) >= 2
    return viols, nontrivial


def run_one(inst):
    viols, nt = judge(inst)
    return Result(nontrivial=nt, violations=viols[:3], outcome=(inst["ploidy"], inst["fmt"], bool(viols)))


def run(rep, tier, seed, only=None):
    st = par.explore(lambda: space(tier), run_one, label="C14")
    rep.add_violations(st.violations)
    rep.add_crashes(st.crashes, "C14")
    rep.coverage.update(
        evaluations=st.evaluations,
        distinct_nontrivial=st.nontrivial,
        rule="every (read name sequence, haplotype assignment, list format, reads format, option vector) of the alphabet; non-trivial = reads go to at least two different outputs",
        samples=st.samples[:3],
        exhaustive=True,
        distinct_outcomes=len(st.outcomes),
    )
    rep.assumptions += ["read names unique within the haplotype list", "--only-largest-block only with 4-column lists without ties in block size"]


def replay(v):
    viols, _ = judge(v["instance"])
    return viols
