"""C10  haplotag conserves every alignment and tags it with the best-agreeing haplotype.

Every sequence of <= 3 (4) alignment kinds x phased-VCF design x option vector is written as
BAM + bgzipped VCF and given to run_haplotag; the output BAM is compared alignment by
alignment with the input (conservation), the HP/PS/PC tags with an independent scoring from the
scenario (decision rule), and with a second run on the VCF in which the haplotypes of one
phase set are exchanged (symmetry).
"""
import itertools
import os

import pysam

from mc import par, synth
from mc.par import Result

LEVEL = "exploration"

POS = [60, 100, 140, 180]
HAPS2 = [(0, 1, 0, 1), (1, 0, 1, 0)]  # alleles of haplotype 0 / 1 at the four variants (sample S1)
HAPS_S2 = [(1, 1, 0, 0), (0, 0, 1, 1)]

DESIGNS = {
    "one-set": {"sets": [61, 61, 61, 61]},
    "two-sets": {"sets": [61, 61, 141, 141]},
    "interleaved": {"sets": [61, 101, 61, 101]},
    "with-unphased": {"sets": [61, None, 61, 61]},
    "two-samples": {"sets": [61, 61, 61, 61], "s2": [61, 61, 141, 141]},
    "three-one": {"sets": [61, 61, 61, 181]},  # a read over all four variants is decided by the first set, its last variant lies in the second
}

# alignment kinds: name -> (first variant, last variant, allele source per covered variant, extras)
# allele source: 0 / 1 = haplotype, "m" = mixed per position
KINDS = {
    "A": dict(span=(0, 1), hap=0),
    "B": dict(span=(0, 3), hap=1),
    "C": dict(span=(1, 3), alleles="0,0,1"),  # two alleles of haplotype 0, last of haplotype 1
    "D": dict(span=(0, 1), alleles="0,1"),  # tie when both variants are in one set
    "E": dict(span=None),  # covers no variant
    "F": dict(span=(2, 3), hap=1),
    "Z": dict(span=(1, 2), alleles="0,1", exact=True),  # starts exactly at a variant, ends exactly behind one: a tie that hinges on both boundary variants
    "Y": dict(span=(2, 3), hap=0, exact=True),
    "M": dict(mate=True, span=(2, 3)),  # mate of the previous alignment (same haplotype)
    "S": dict(supp=True, span=(3, 3)),  # supplementary of the previous one, other haplotype's allele
    "X": dict(secondary=True, span=(0, 1)),  # secondary of the previous one
    "U": dict(span=(0, 1), hap=1, dup=True),
    "N0": dict(unmapped=True, placed=False),
    "N1": dict(unmapped=True, placed=True),
    "R": dict(span=(0, 3), hap=0, rg="rg_S2"),  # read of the second sample
    "G": dict(span=(0, 3), hap=0, rg=None),  # no read group at all
    "T": dict(span=(0, 1), hap=0, stale=True),  # carries stale HP/PS/PC
    "TE": dict(span=None, stale=True),  # stale tags, covers no variant
    "LA": dict(span=(0, 1), hap=0, bx="bx1"),
    "LE": dict(span=None, bx="bx1"),
    "LT": dict(span=None, stale=True, bx="bx1"),  # barcode, no variant of its own, stale tags from an earlier run
    "LF": dict(span=(2, 3), hap=1, bx="bx1"),  # same barcode, 80 bp to the right of LA, the other haplotype
    "NM": dict(unmapped=True, placed=True, mate_of_prev=True),
    "MB": dict(mate=True, span=None, other_contig=True, stale=True),  # mate of the previous read on the contig without variants, with stale tags  # unmapped mate placed at (and named like) the previous alignment
}
NEEDS_PREV = {"M", "S", "X", "NM", "MB"}


def make_alignments(kinds, seq, variants, seq_b=None):
    """list of alignment dicts + meta (per alignment: name, covered variant -> observed allele, flags)"""
    alns, meta = [], []
    prev = None
    for i, k in enumerate(kinds):
        spec = KINDS[k]
        name = f"r{i}"
        m = {"kind": k, "name": name, "obs": {}, "primary": True, "rg": "rg_S1", "bx": spec.get("bx")}
        if spec.get("unmapped"):
            a = {"name": name, "chrom": None, "seq": "ACGTACGTAC", "rg": "rg_S1"}
            if spec.get("mate_of_prev"):
                if prev is None:
                    return None, None
                a.update(name=prev["name"], pos_chrom="chr2", start=prev["start"], flag=1 | 0x80, mate={"chrom": "chr2", "start": prev["start"]}, rg=prev["rg"])
                m["name"] = prev["name"]
            elif spec["placed"]:
                a.update(pos_chrom="chr2", start=50)
            m["primary"] = False
            m["unmapped"] = True
            alns.append(a)
            meta.append(m)
            prev = None
            continue
        if k in NEEDS_PREV:
            if prev is None:
                return None, None
            name = prev["name"]
            m["name"] = name
            hap = prev.get("hap", 0)
            m["rg"] = prev["rg"]
        else:
            hap = spec.get("hap", 0)
        span = spec.get("span")
        flag = 0
        if span is None:
            start, end = 112, 128
            alleles = [0, 0, 0, 0]
            obs = {}
        else:
            a_, b_ = span
            start, end = POS[a_] - 12 - i, POS[b_] + 12 + i
            if spec.get("exact"):
                start, end = POS[a_], POS[b_] + 1
            if "alleles" in spec:
                src = [int(x) for x in spec["alleles"].split(",")]
            elif spec.get("supp"):
                src = [1 - hap] * (b_ - a_ + 1)
            else:
                src = [hap] * (b_ - a_ + 1)
            obs = {}
            alleles = [0, 0, 0, 0]
            for j, vi in enumerate(range(a_, b_ + 1)):
                al = HAPS2[src[j]][vi]
                alleles[vi] = al
                obs[vi] = al
        q, cig = synth.hap_read(seq, variants, alleles, start, end)
        on = "chr2"
        if spec.get("other_contig"):
            on, start, end = "chr10", 60 + i, 90 + i
            q, cig = seq_b[start:end], [(0, end - start)]
            m["other_contig"] = True
        a = {"name": name, "chrom": on, "start": start, "cigar": cig, "seq": q, "rg": spec.get("rg", "rg_S1") if k not in NEEDS_PREV else m["rg"], "tags": []}
        if "rg" in spec and spec["rg"] is None:
            a["rg"] = None
        m["rg"] = a["rg"]
        m["obs"] = obs
        m["hap"] = hap
        if spec.get("mate"):
            flag |= 1 | 0x80
            a["mate"] = {"chrom": "chr2", "start": prev["start"]}
        if spec.get("supp"):
            flag |= 0x800
            m["primary"] = False
            m["supp"] = True
        if spec.get("secondary"):
            flag |= 0x100
            m["primary"] = False
            m["secondary"] = True
        if spec.get("dup"):
            flag |= 0x400
        if spec.get("stale"):
            a["tags"] += [("HP", 2, "i"), ("PS", 999, "i"), ("PC", 5, "i")]
        if spec.get("bx"):
            a["tags"].append(("BX", spec["bx"], "Z"))
        a["tags"].append(("zz", f"keep{i}", "Z"))
        # tags of other types, which a rewrite of the tag list could silently re-type
        a["tags"] += [("tp", "P", "A"), ("xh", "1AE3", "H"), ("xc", 7, "C"), ("xf", 0.5, "f")]
        a["flag"] = flag
        m["start"] = start
        alns.append(a)
        meta.append(m)
        if k not in NEEDS_PREV:
            prev = {"name": name, "hap": hap, "start": start, "rg": a["rg"]}
    return alns, meta


def build(inst, d, swap_set=None):
    seed = int(os.environ.get("VERIF_SEED", "0")) + 101
    seq = synth.make_reference(seed, 300)
    variants = [synth.make_variant(seq, p, "SNV") for p in POS]
    design = DESIGNS[inst["design"]]
    two = "s2" in design
    samples = ["S1"] + (["S2"] if two else [])
    vcf = synth.VcfText(samples, contigs=[("chr2", len(seq)), ("chr10", 200)], formats=["GT", "PS"])
    for vi, v in enumerate(variants):
        calls = []
        for s in samples:
            sets = design["sets"] if s == "S1" else design["s2"]
            haps = HAPS2 if s == "S1" else HAPS_S2
            if sets[vi] is None:
                calls.append({"GT": "0/1"})
            else:
                a0, a1 = haps[0][vi], haps[1][vi]
                if swap_set is not None and s == "S1" and sets[vi] == swap_set:
                    a0, a1 = a1, a0
                calls.append({"GT": f"{a0}|{a1}", "PS": str(sets[vi])})
        vcf.add("chr2", v.pos, v.ref, v.alts, calls, fmt=["GT", "PS"])
    vcf_path = vcf.write(os.path.join(d, "phased.vcf.gz" if swap_set is None else "swapped.vcf.gz"))
    fasta = synth.write_fasta(os.path.join(d, "ref.fa"), [("chr2", seq), ("chr10", synth.make_reference(seed + 1, 200))])
    alns, meta = make_alignments(inst["kinds"], seq, variants, synth.make_reference(seed + 1, 200))
    bam = os.path.join(d, "in.bam")
    order = synth.write_bam(bam, [("chr2", len(seq)), ("chr10", 200)], alns, read_groups=[{"ID": "rg_S1", "SM": "S1"}, {"ID": "rg_S2", "SM": "S2"}])
    return vcf_path, fasta, bam, [meta[i] for i in order]


def strip(rec):
    r = dict(rec)
    r["tags"] = [t for t in rec["tags"] if t[0] not in ("HP", "PS", "PC")]
    return r


def tags_of(rec):
    return {t[0]: t[1] for t in rec["tags"] if t[0] in ("HP", "PS", "PC")}


_scratch = None


def judge(inst):
    global _scratch
    from whatshap.cli.haplotag import run_haplotag

    if _scratch is None:
        _scratch = synth.Scratch("c10")
    d = os.path.join(_scratch.path, f"p{os.getpid()}")
    os.makedirs(d, exist_ok=True)
    for f in os.listdir(d):
        os.unlink(os.path.join(d, f))
    opts = dict(inst["opts"])
    viols = []

    def V(clause, detail):
        return {"clause": clause, "signature": "c10:" + clause, "detail": detail + f" [kinds {inst['kinds']} design {inst['design']} opts {inst['opts']}]", "instance": inst}

    built = build(inst, d)
    vcf_path, fasta, bam, meta = built
    design = DESIGNS[inst["design"]]
    use_ref = opts.pop("use_reference", True)
    kw = dict(opts)
    region = kw.get("regions")

    def run(vcf, tag):
        out = os.path.join(d, f"out_{tag}.bam")
        lst = os.path.join(d, f"list_{tag}.tsv")
        run_haplotag(vcf, bam, output=out, reference=fasta if use_ref else False, haplotag_list=lst, **kw)
        return synth.read_bam(out), [l.rstrip("\n").split("\t") for l in open(lst) if not l.startswith("#")]

    try:
        out, lst = run(vcf_path, "a")
    except Exception as e:  # noqa
        if "No reads could be retrieved" in str(e) and all(m.get("unmapped") and "start" not in m for m in meta):
            return [], False  # a BAM without any placed alignment is refused: nothing to judge
        return [V("error", f"run_haplotag failed: {type(e).__name__}: {e}")], False
    inp = synth.read_bam(bam)
    # ---- conservation
    if region:
        # chr2:90-150 -> [89, 150): 1-based closed intervals; a bare contig name selects the whole contig.  An alignment
        # belongs to the output iff it overlaps a region of its contig; the output keeps the order of the input
        # whatever the order in which the regions are named
        ivs = []  # intervals on chr2 (the contig with variants)
        sel = []
        for spec in region:
            if ":" in spec:
                c_, rest = spec.split(":")
                a_, b_ = rest.split("-")
                sel.append((c_, int(a_) - 1, int(b_)))
            else:
                sel.append((spec, 0, 10**9))
            if sel[-1][0] == "chr2":
                ivs.append(sel[-1][1:])
        tids = {"chr2": 0, "chr10": 1}
        keep = [i for i, r in enumerate(inp) if r["tid"] >= 0 and any(tids[c_] == r["tid"] and r["start"] < hi and _end(r) > lo for c_, lo, hi in sel)]
    else:
        keep = list(range(len(inp)))
    exp = [inp[i] for i in keep]
    if len(out) != len(exp):
        viols.append(V("conservation", f"{len(exp)} alignments expected in the output, {len(out)} written: {[r['name'] for r in out]} vs {[r['name'] for r in exp]}"))
        return viols, False
    for o, e in zip(out, exp):
        if strip(o) != strip(e):
            viols.append(V("conservation", f"alignment {e['name']} changed or reordered: {strip(o)} vs {strip(e)}"[:700]))
            return viols, False  # the rest pairs output and input alignments by position
    # ---- decision rule
    sets1 = design["sets"]
    in_region = [True] * 4 if not region else [any(lo <= p < hi for lo, hi in ivs) for p in POS]
    ign_rg = kw.get("ignore_read_groups", False)
    names = {}
    for m in meta:
        if m.get("unmapped"):
            continue
        if m.get("other_contig"):
            continue  # a contig is processed on its own: the mate over there shares nothing with this contig's variants
        names.setdefault(m["name"], []).append(m)
    linked = any(m.get("bx") for m in meta) and not kw.get("ignore_linked_read", False)
    nontrivial = False
    two = "s2" in design
    amb = set()  # read names whose reported phase set is not determined (several sets share the best score, or an unmodelled cloud)
    for o, idx in zip(out, keep):
        m = meta[idx]
        t = tags_of(o)
        if m.get("unmapped") or m.get("secondary") or (m.get("supp") and not kw.get("tag_supplementary")):
            if t:
                viols.append(V("tagged-ignored", f"{m['kind']} alignment {m['name']} carries {t}"))
            continue
        if m.get("other_contig"):
            if t:
                viols.append(V("tagged-without-variant", f"alignment {m['name']} on the contig without variants carries {t}"))
            continue
        grp = names[m["name"]]
        # which sample's phasing applies
        sample = "S1" if (ign_rg or m["rg"] == "rg_S1") else ("S2" if (m["rg"] == "rg_S2" and two) else None)
        if ign_rg and kw.get("given_samples"):
            sample = kw["given_samples"][0]
        if sample is None:
            if t:
                viols.append(V("tagged-foreign", f"alignment {m['name']} of read group {m['rg']} (sample not in the VCF) carries {t}"))
            continue
        sets = sets1 if sample == "S1" else design["s2"]
        haps = HAPS2 if sample == "S1" else HAPS_S2
        scores = {}
        # alignments of one read name are merged: every variant counts once; conflicting observations are dropped
        merged = {}
        for g in grp:
            if g.get("supp") or g.get("secondary"):
                continue
            if not ign_rg and g["rg"] != m["rg"]:
                continue
            for vi, al in g["obs"].items():
                if vi in merged and merged[vi] != al:
                    merged[vi] = None
                elif vi not in merged:
                    merged[vi] = al
        for vi, al in merged.items():
            if al is None or sets[vi] is None or not in_region[vi]:
                continue
            sc = scores.setdefault(sets[vi], [0, 0])
            for j in (0, 1):
                if haps[j][vi] == al:
                    sc[j] += 30
        if linked and any(g.get("bx") for g in grp):
            # read cloud pooling (documented: reads with one barcode form a cloud unless they are farther apart
            # than --linked-read-distance-cutoff); judged where the clouds are unambiguous, else on conservation
            # and symmetry only
            cl = clouds(meta, names, kw.get("linked_read_distance_cutoff", 50000), sample if not ign_rg else None) if not region else None
            if cl is None or len(grp) != 1:
                amb.add(m["name"])
                continue
            if m["obs"]:
                scores = {}
                for g in cl["of"][m["name"]]:
                    for vi, al in g["obs"].items():
                        if sets[vi] is None:
                            continue
                        sc = scores.setdefault(sets[vi], [0, 0])
                        for j in (0, 1):
                            if haps[j][vi] == al:
                                sc[j] += 30
            else:
                # no variant of its own: takes the assignment of a cloud of its barcode within the cutoff
                near = cl["near"](m)
                if near is None:
                    amb.add(m["name"])
                    continue
                cands = set()
                for members in near:
                    sc = {}
                    for g in members:
                        for vi, al in g["obs"].items():
                            if sets[vi] is not None:
                                x = sc.setdefault(sets[vi], [0, 0])
                                for j in (0, 1):
                                    if haps[j][vi] == al:
                                        x[j] += 30
                    if not sc:
                        continue
                    best = max(max(x) for x in sc.values())
                    tops = [ps for ps, x in sc.items() if max(x) == best]
                    if len(tops) > 1:
                        cands.add("?")
                    elif sc[tops[0]][0] != sc[tops[0]][1]:
                        cands.add((tops[0], 1 if sc[tops[0]][0] > sc[tops[0]][1] else 2))
                if "?" in cands or len(cands) > 1:
                    amb.add(m["name"])
                    continue
                want = {"PS": list(cands)[0][0], "HP": list(cands)[0][1]} if cands else {}
                if t != want:
                    viols.append(V("cloud", f"alignment {m['name']} (barcode, no variant) carries {t}, the clouds of its barcode within the cutoff give {want}"))
                elif t:
                    nontrivial = True
                continue
        if not scores:
            if t:
                viols.append(V("tagged-without-variant", f"alignment {m['name']} covers no phased heterozygous variant but carries {t}"))
            continue
        best = max(max(s) for s in scores.values())
        tops = [ps for ps, s in scores.items() if max(s) == best]
        if len(tops) > 1 and linked and m.get("bx"):
            amb.add(m["name"])  # the order in which a cloud's reads are pooled decides between equally good sets
        if not t:
            # untagged is right only if the top-scoring set is tied
            if all(scores[ps][0] != scores[ps][1] for ps in tops):
                viols.append(V("untagged", f"alignment {m['name']} has a unique best haplotype (scores {scores}) but is not tagged"))
            continue
        nontrivial = True
        ps = t.get("PS")
        if ps not in scores:
            viols.append(V("phase-set", f"alignment {m['name']} reports phase set {ps}, it covers variants of {sorted(scores)}"))
            continue
        s = scores[ps]
        if s[0] == s[1] or t.get("HP") != (1 if s[0] > s[1] else 2):
            viols.append(V("haplotype", f"alignment {m['name']} tagged HP={t.get('HP')} in set {ps}, scores per haplotype {s}"))
        elif len(scores) == 1 and t.get("PC") != abs(s[0] - s[1]):
            viols.append(V("quality", f"alignment {m['name']} PC={t.get('PC')}, score margin {abs(s[0] - s[1])}"))
        if len(tops) == 1 and ps != tops[0] and len(scores) > 1:
            viols.append(V("phase-set", f"alignment {m['name']} reports set {ps} but set {tops[0]} has the best score ({scores})"))
    # haplotag list: one line per primary alignment of the output, consistent with the tags
    # (the unmapped tail is copied without a line in the list)
    prim = [o for o in out if not (o["flag"] & 0x900) and o["tid"] >= 0]
    if len(lst) != len(prim):
        viols.append(V("list", f"haplotag list has {len(lst)} lines for {len(prim)} placed primary alignments"))
    else:
        for row, o in zip(lst, prim):
            t = tags_of(o)
            want = (o["name"], f"H{t['HP']}" if "HP" in t else "none", str(t["PS"]) if "PS" in t else "none")
            if tuple(row[:3]) != want:
                viols.append(V("list", f"haplotag list line {row} does not match the tags {t} of {o['name']}"))
                break
    # ---- symmetry: exchange the haplotypes of the first phase set of S1 in the VCF
    if inst.get("symmetry"):
        swap = 61
        vcf2, _, _, _ = build(inst, d, swap_set=swap)[0], None, None, None
        try:
            out2, _ = run(os.path.join(d, "swapped.vcf.gz"), "b")
        except Exception as e:  # noqa
            viols.append(V("error", f"run_haplotag on the exchanged VCF failed: {e}"))
            return viols, nontrivial
        for o1, o2, idx in zip(out, out2, keep):
            t1, t2 = tags_of(o1), tags_of(o2)
            m = meta[idx]
            s1_read = ign_rg or m.get("rg") == "rg_S1"
            if strip(o1) != strip(o2):
                viols.append(V("symmetry", f"alignment {o1['name']} differs beyond HP/PS/PC"))
            if m["name"] in amb:
                continue
            if t1.get("PS") == swap and s1_read:
                want = dict(t1, HP=3 - t1["HP"])
                if t2 != want:
                    viols.append(V("symmetry", f"alignment {o1['name']} in the exchanged set: {t1} -> {t2}, expected {want}"))
            elif t1 != t2 and not (t2.get("PS") == swap and s1_read):
                viols.append(V("symmetry", f"alignment {o1['name']} outside the exchanged set changed: {t1} -> {t2}"))
            if strip(o1) != strip(o2):
                viols.append(V("symmetry", f"alignment {o1['name']} differs beyond HP/PS/PC"))
    return viols[:5], nontrivial


def clouds(meta, names, cutoff, sample_rg):
    """reads with a barcode and at least one observed variant, clustered by start distance <= cutoff; None if
    the clustering is ambiguous (a chain whose ends are farther apart than the cutoff) or a barcode read has mates"""
    W = []
    for m in meta:
        if m.get("bx") and not m.get("unmapped") and not m.get("supp") and not m.get("secondary") and m["obs"]:
            if len(names[m["name"]]) != 1:
                return None
            W.append(m)
    W.sort(key=lambda m: m["start"])
    cl = []
    for m in W:
        if cl and m["start"] - cl[-1][-1]["start"] <= cutoff:
            cl[-1].append(m)
        else:
            cl.append([m])
    for c in cl:
        if c[-1]["start"] - c[0]["start"] > cutoff:
            return None
    of = {m["name"]: c for c in cl for m in c}

    def near(m):
        out = []
        for c in cl:
            d = [abs(x["start"] - m["start"]) <= cutoff for x in c]
            if all(d):
                out.append(c)
            elif any(d):
                return None
        return out

    return {"of": of, "near": near}


def _end(r):
    if r["cigar"] is None:
        return r["start"] + 1
    n = 0
    num = ""
    for ch in r["cigar"]:
        if ch.isdigit():
            num += ch
        else:
            if ch in "MDN=X":
                n += int(num)
            num = ""
    return r["start"] + n


def option_vectors(T):
    ov = [
        {},
        {"tag_supplementary": True},
        {"ignore_linked_read": True},
        {"regions": ["chr2:90-150"]},
        {"output_threads": 2},
        {"use_reference": False},
        {"ignore_read_groups": True, "given_samples": ["S1"]},
        {"linked_read_distance_cutoff": 50},
        {"regions": ["chr2:50-110", "chr2:111-200"]},
        # regions named against the order of the input: contigs reversed, intervals of one contig reversed
        {"regions": ["chr10", "chr2"]},
        {"regions": ["chr2", "chr10"]},
        {"regions": ["chr2:111-200", "chr2:50-110"]},
    ]
    if T:
        ov += [{"tag_supplementary": True, "ignore_linked_read": True}, {"regions": ["chr2:90-150"], "tag_supplementary": True}, {"use_reference": False, "ignore_read_groups": True, "given_samples": ["S1"]}]
    return ov


def space(tier):
    T = tier == "thorough"
    ov = option_vectors(T)
    knames = list(KINDS)
    for n in (1, 2, 3) + ((4,) if T else ()):
        for kinds in itertools.product(knames, repeat=n):
            if kinds[0] in NEEDS_PREV:
                continue
            if any(kinds[i] in NEEDS_PREV and kinds[i - 1] in ("N0", "N1", "NM") for i in range(1, n)):
                continue
            if any(kinds[i] in NEEDS_PREV and kinds[i - 1] in NEEDS_PREV and kinds[i] == kinds[i - 1] for i in range(1, n)):
                continue
            # a template has two segments: at most one mate (M or NM) per read
            bad = False
            mates = 0
            for k_ in kinds:
                if k_ not in NEEDS_PREV:
                    mates = 0
                elif k_ in ("M", "NM", "MB"):
                    mates += 1
                    bad = bad or mates > 1
            if bad:
                continue
            if n == 4 and len(set(kinds)) < 3:
                continue
            h = sum((i + 1) * knames.index(k) for i, k in enumerate(kinds))
            designs = list(DESIGNS) if n <= 2 else [list(DESIGNS)[h % len(DESIGNS)], list(DESIGNS)[(h // 5 + 1) % len(DESIGNS)]]
            for di, design in enumerate(dict.fromkeys(designs)):
                opts_list = ov if n <= 2 else [ov[0], ov[(h + di) % len(ov)]]
                for oi, o in enumerate(opts_list):
                    if o.get("ignore_read_groups") and "s2" in DESIGNS[design]:
                        pass
                    yield {"kinds": list(kinds), "design": design, "opts": o, "symmetry": (oi == 0)}
    # polyploid slice is in run_poly


POLY = {3: [(0, 1, 1), (1, 0, 1), (1, 1, 0)], 4: [(0, 1, 1, 0), (1, 0, 1, 1), (1, 1, 0, 1), (0, 0, 0, 1)]}


def poly_space(tier):
    T = tier == "thorough"
    for ploidy in (3, 4):
        for reads in itertools.product(range(ploidy), repeat=2):
            for span in ((0, 2), (0, 1), (1, 2)):
                yield {"poly": ploidy, "reads": list(reads), "span": list(span)}
    # every heterozygous genotype per variant (haplotypes may coincide over the span: ties between the best two
    # with a third one behind), one read per haplotype
    for ploidy in (3, 4):
        gts = [g for g in itertools.product((0, 1), repeat=ploidy) if 0 < sum(g) < ploidy]
        mats = list(itertools.product(gts, repeat=3))
        if ploidy == 4:
            mats = mats[:: 1 if T else 7]
        for m in mats:
            for span in ((0, 2), (0, 1)) + (((1, 2),) if T else ()):
                yield {"poly": ploidy, "gts": [list(g) for g in m], "reads": list(range(ploidy)), "span": list(span)}


def judge_poly(inst):
    global _scratch
    from whatshap.cli.haplotag import run_haplotag

    if _scratch is None:
        _scratch = synth.Scratch("c10")
    d = os.path.join(_scratch.path, f"q{os.getpid()}")
    os.makedirs(d, exist_ok=True)
    ploidy = inst["poly"]
    seed = int(os.environ.get("VERIF_SEED", "0")) + 103
    seq = synth.make_reference(seed, 260)
    variants = [synth.make_variant(seq, p, "SNV") for p in POS[:3]]
    haps = POLY[ploidy]  # haps[variant] = alleles per haplotype
    if "gts" in inst:
        hap_alleles = [[inst["gts"][vi][j] for vi in range(3)] for j in range(ploidy)]
    else:
        hap_alleles = [[(haps[vi][j] if ploidy == 3 else haps[j][vi]) for vi in range(3)] for j in range(ploidy)]
    vcf = synth.VcfText(["S1"], contigs=[("chr2", len(seq))], formats=["GT", "PS"])
    for vi, v in enumerate(variants):
        vcf.add("chr2", v.pos, v.ref, v.alts, [{"GT": "|".join(str(hap_alleles[j][vi]) for j in range(ploidy)), "PS": "61"}], fmt=["GT", "PS"])
    vcf_path = vcf.write(os.path.join(d, "p.vcf.gz"))
    fasta = synth.write_fasta(os.path.join(d, "ref.fa"), [("chr2", seq)])
    a_, b_ = inst["span"]
    alns = []
    for i, h in enumerate(inst["reads"]):
        al = [hap_alleles[h][vi] if a_ <= vi <= b_ else 0 for vi in range(3)]
        q, cig = synth.hap_read(seq, variants, al, POS[a_] - 10 - i, POS[b_] + 10 + i)
        alns.append({"name": f"r{i}", "chrom": "chr2", "start": POS[a_] - 10 - i, "cigar": cig, "seq": q, "rg": "rg_S1"})
    bam = os.path.join(d, "in.bam")
    synth.write_bam(bam, [("chr2", len(seq))], alns, read_groups=[{"ID": "rg_S1", "SM": "S1"}])
    out = os.path.join(d, "out.bam")
    viols = []
    try:
        run_haplotag(vcf_path, bam, output=out, reference=fasta, ploidy=ploidy)
    except Exception as e:  # noqa
        return [{"clause": "error", "signature": "c10:poly-error", "detail": f"{type(e).__name__}: {e}", "instance": inst}], False
    res = {r["name"]: tags_of(r) for r in synth.read_bam(out)}
    for i, h in enumerate(inst["reads"]):
        sc = [sum(30 for vi in range(a_, b_ + 1) if hap_alleles[j][vi] == hap_alleles[h][vi]) for j in range(ploidy)]
        best = max(sc)
        t = res.get(f"r{i}", {})
        if sc.count(best) > 1:
            if t:
                viols.append({"clause": "poly-tie", "signature": "c10:poly-tie", "detail": f"read of haplotype {h} ties (scores {sc}) but is tagged {t}", "instance": inst})
        elif t.get("HP") != sc.index(best) + 1:
            viols.append({"clause": "poly-haplotype", "signature": "c10:poly-haplotype", "detail": f"read of haplotype {h}: scores {sc}, tagged {t}", "instance": inst})
    return viols, True


def run_one(inst):
    if "poly" in inst:
        viols, nt = judge_poly(inst)
    else:
        viols, nt = judge(inst)
    return Result(nontrivial=nt, violations=viols, outcome=("poly" if "poly" in inst else inst["design"], bool(viols)))


def run(rep, tier, seed, only=None):
    def sp():
        yield from space(tier)
        yield from poly_space(tier)

    st = par.explore(sp, run_one, label="C10")
    rep.add_violations(st.violations)
    rep.add_crashes(st.crashes, "C10")
    rep.coverage.update(
        evaluations=st.evaluations,
        distinct_nontrivial=st.nontrivial,
        rule="every sequence of alignment kinds up to the length bound x VCF design x option vector (complete for length <= 2, covering design above); non-trivial = at least one alignment tagged",
        samples=st.samples[:4],
        exhaustive=True,
        distinct_outcomes=len(st.outcomes),
    )
    rep.assumptions += [
        "one --regions interval per chromosome (several overlapping regions write an alignment once per region; not judged)",
        "reads sharing a BX tag (without --ignore-linked-read) are judged against pooled scores of their read cloud (same barcode, start distance <= --linked-read-distance-cutoff) where the clouds are unambiguous and no region is given, else on conservation and exchange symmetry only",
        "interleavings of htslib's writer threads under --output-threads are outside the harness: only the option values are enumerated",
    ]


def replay(v):
    return run_one(v["instance"]).violations
