"""C11  compare reports the defined error counts, independent of haplotype labelling.

All pairs (and triples) of phasings of the same variants within a bounded alphabet are written
as VCFs and given to run_compare; --tsv-pairwise, --longest-block-tsv, --switch-error-bed and
--tsv-multiway are compared with independent definitions (brute force where the definition is a
minimum).
"""
import contextlib
import io
import itertools
import os

from mc import par, synth
from mc.par import Result

LEVEL = "exploration"

IDS = [{"A": 100, "B": 200}, {"A": 31, "B": 17}, {"A": 5, "B": 900}]
KINDS = ["u", "A01", "A10", "B01", "B10"]


def canonical(seq):
    """set names in order of first use: A before B"""
    first = None
    for k in seq:
        if k[0] in "AB":
            first = k[0]
            break
    return first in (None, "A")


def build_vcf(path, pattern, file_index, ploidy=2, chroms=("chr1",), multi_idx=()):
    """pattern: per chromosome list of kinds.  diploid kinds: 'u' | 'h' (hom) | '<set><a0><a1>';
    polyploid kinds: tuple(set, alleles tuple) or ('u', alleles)"""
    seq = synth.make_reference(5, 400)
    vcf = synth.VcfText(["S"], contigs=[(c, 400) for c in chroms], formats=["GT", "PS"])
    for c, kinds in zip(chroms, pattern):
        for i, k in enumerate(kinds):
            pos = 50 + 30 * i
            ref, alt = seq[pos], [synth.other_base(seq[pos])]
            if i in multi_idx:
                nalt = multi_idx[i] if isinstance(multi_idx, dict) else 2
                alt += [synth.other_base(seq[pos], x) for x in range(2, nalt + 1)]
            if isinstance(k, tuple):
                s, alleles = k
                if s == "u":
                    call = {"GT": "/".join(map(str, sorted(alleles)))}
                else:
                    call = {"GT": "|".join(map(str, alleles)), "PS": str(IDS[file_index][s])}
            elif k == "u":
                call = {"GT": "0/1"}
            elif k == "h":
                call = {"GT": "1/1"}
            else:
                call = {"GT": f"{k[1]}|{k[2]}", "PS": str(IDS[file_index][k[0]])}
            fmt = ["GT", "PS"] if "PS" in call else ["GT"]
            vcf.add(c, pos, ref, alt, [call], fmt=fmt)
    vcf.write(path)


# ---------------------------------------------------------------- definitions (oracle)
def senc(h):
    return [0 if h[i - 1] == h[i] else 1 for i in range(1, len(h))]


def ham(a, b):
    return sum(x != y for x, y in zip(a, b))


def switch_flip(h0, h1):
    s0, s1 = senc(h0), senc(h1)
    s = f = 0
    run = 0
    for i in range(len(s0) + 1):
        if i < len(s0) and s0[i] != s1[i]:
            run += 1
        else:
            f += run // 2
            s += run % 2
            run = 0
    return s, f


def brute_switch_flip_total(h0, h1):
    """min over subsets of flipped positions of (#flips + #switches needed for the rest)"""
    n = len(h0)
    best = None
    for F in itertools.product((0, 1), repeat=n):
        g = [a ^ b for a, b in zip(h1, F)]
        cost = sum(F) + ham(senc(h0), senc(g))
        if best is None or cost < best:
            best = cost
    return best


def blocks_of(patterns, n_files):
    """patterns[file] = list of kinds for one chromosome -> (common indices, {joint id: [indices]})"""
    n = len(patterns[0])
    common = [i for i in range(n) if all(p[i] != "h" for p in patterns)]
    joint = {}
    for i in common:
        if all(p[i] != "u" for p in patterns):
            joint.setdefault(tuple(p[i][0] for p in patterns), []).append(i)
    return common, joint


def expected_pair(p0, p1):
    common, joint = blocks_of([p0, p1], 2)
    blocks = [b for b in joint.values() if len(b) >= 2]
    tot = {"switches": 0, "s": 0, "f": 0, "hamming": 0, "pairs": 0, "variants": 0}
    per_block = []
    bed = []
    for b in blocks:
        # haplotype 0 as a 0/1 string: 0 where it carries the smaller allele of the (heterozygous) genotype
        h0 = [int(int(p0[i][1]) > int(p0[i][2])) for i in b]
        h1 = [int(int(p1[i][1]) > int(p1[i][2])) for i in b]
        sw = ham(senc(h0), senc(h1))
        s, f = switch_flip(h0, h1)
        hm = min(ham(h0, h1), len(b) - ham(h0, h1))
        tot["switches"] += sw
        tot["s"] += s
        tot["f"] += f
        tot["hamming"] += hm
        tot["pairs"] += len(b) - 1
        tot["variants"] += len(b)
        e0, e1 = senc(h0), senc(h1)
        for j in range(len(b) - 1):
            if e0[j] != e1[j]:
                bed.append((50 + 30 * b[j] + 1, 50 + 30 * b[j + 1] + 1))
        agree_same = [1 if x == y else 0 for x, y in zip(h0, h1)]
        per_block.append({"idx": b, "switches": sw, "s": s, "f": f, "hamming": hm, "agree": agree_same})
    return common, blocks, tot, per_block, sorted(bed)


_scratch = None


def _dir():
    global _scratch
    if _scratch is None:
        _scratch = synth.Scratch("c11")
    d = os.path.join(_scratch.path, f"p{os.getpid()}")
    os.makedirs(d, exist_ok=True)
    return d


def run_tool(paths, ploidy=2, multiway=False, **kw):
    from whatshap.cli.compare import run_compare

    d = os.path.dirname(paths[0])
    out = {k: os.path.join(d, k) for k in ("pair.tsv", "longest.tsv", "sw.bed", "multi.tsv")}
    for p in out.values():
        if os.path.exists(p):
            os.unlink(p)
    args = dict(vcf=paths, ploidy=ploidy, tsv_pairwise=out["pair.tsv"])
    if ploidy == 2:
        args.update(longest_block_tsv=out["longest.tsv"], switch_error_bed=out["sw.bed"])
        if multiway:
            args.update(tsv_multiway=out["multi.tsv"])
    args.update(kw)
    with contextlib.redirect_stdout(io.StringIO()):
        run_compare(**args)
    res = {}
    with open(out["pair.tsv"]) as f:
        hdr = f.readline().rstrip("\n").split("\t")
        res["pair"] = [dict(zip(hdr, line.rstrip("\n").split("\t"))) for line in f]
    if ploidy == 2:
        with open(out["longest.tsv"]) as f:
            f.readline()
            res["longest"] = [line.rstrip("\n").split("\t") for line in f]
        with open(out["sw.bed"]) as f:
            res["bed"] = [line.rstrip("\n").split("\t") for line in f]
        if multiway:
            with open(out["multi.tsv"]) as f:
                f.readline()
                res["multi"] = [line.rstrip("\n").split("\t") for line in f]
    return res


def judge_pair(inst):
    p0, p1 = inst["p"]
    d = _dir()
    paths = [os.path.join(d, "f0.vcf"), os.path.join(d, "f1.vcf")]
    multi = tuple(i for i in range(len(p0)) if any(len(k) == 3 and "2" in k[1:] for k in (p0[i], p1[i])))
    build_vcf(paths[0], [p0], 0, multi_idx=multi)
    build_vcf(paths[1], [p1], 1, multi_idx=multi)
    viols = []

    def V(clause, detail):
        return {"clause": clause, "signature": "c11:" + clause + (":multi-allelic" if multi else ""), "detail": detail + f" (files {p0} vs {p1})", "instance": inst}

    try:
        res = run_tool(paths)
    except Exception as e:  # noqa
        return [V("error", f"run_compare failed: {type(e).__name__}: {e}")], False
    common, blocks, tot, per_block, bed = expected_pair(p0, p1)
    row = res["pair"][0]
    checks = [
        ("intersection_blocks", len(blocks)),
        ("covered_variants", tot["variants"]),
        ("all_assessed_pairs", tot["pairs"]),
        ("all_switches", tot["switches"]),
        ("all_switchflips", f"{tot['s']}/{tot['f']}"),
        ("blockwise_hamming", tot["hamming"]),
        ("blockwise_diff_genotypes", 0),
    ]
    for col, want in checks:
        if str(row[col]) != str(want):
            viols.append(V("pairwise:" + col, f"{col} = {row[col]}, definition gives {want}"))
    s_, f_ = (int(x) for x in row["all_switchflips"].split("/"))
    if int(row["all_switches"]) != s_ + 2 * f_:
        viols.append(V("identity", f"switches {row['all_switches']} != {s_} + 2*{f_}"))
    if p0 == p1 and (int(row["all_switches"]) or s_ or f_ or int(row["blockwise_hamming"])):
        viols.append(V("identical-inputs", f"identical inputs give non-zero errors: {row}"))
    # largest block: any maximal block whose reported numbers and positions are mutually consistent
    if per_block:
        mx = max(len(b["idx"]) for b in per_block)
        cands = [b for b in per_block if len(b["idx"]) == mx]
        lpos = [int(t[4]) for t in res["longest"]]
        lag = [int(t[5]) for t in res["longest"]]
        ok = False
        why = []
        for b in cands:
            pos = [50 + 30 * i for i in b["idx"]]
            if lpos != pos:
                why.append(f"positions {lpos} != {pos}")
                continue
            if int(row["largestblock_assessed_pairs"]) != mx - 1 or int(row["largestblock_switches"]) != b["switches"] or row["largestblock_switchflips"] != f"{b['s']}/{b['f']}" or int(row["largestblock_hamming"]) != b["hamming"]:
                why.append(f"numbers {row['largestblock_switches']},{row['largestblock_switchflips']},{row['largestblock_hamming']} != {b['switches']},{b['s']}/{b['f']},{b['hamming']}")
                continue
            zeros = lag.count(0)
            comp = [1 - x for x in b["agree"]]
            if zeros != int(row["largestblock_hamming"]):
                why.append(f"agreement column {lag} marks {zeros} disagreements, reported Hamming distance {row['largestblock_hamming']}")
                continue
            if lag != b["agree"] and lag != comp:
                why.append(f"agreement {lag} is neither {b['agree']} nor its complement")
                continue
            ok = True
        if not ok:
            clause = "longest-block-agreement" if any("agreement" in w for w in why) else "largest-block"
            viols.append(V(clause, "; ".join(why)))
    else:
        if res["longest"]:
            viols.append(V("largest-block", f"longest block rows {res['longest']} without an intersection block"))
    gbed = sorted((int(t[1]), int(t[2])) for t in res["bed"])
    if gbed != bed:
        viols.append(V("bed", f"BED {gbed}, switch-encoding differences at {bed}"))
    return viols, bool(per_block and tot["switches"] > 0)


def judge_pairdiff(inst):
    """two diploid files that are heterozygous over DIFFERENT allele pairs of a two-ALT record: only the number of
    different genotypes is judged (the other diploid numbers are not defined across differing genotypes)"""
    p0, p1 = inst["p"]
    d = _dir()
    paths = [os.path.join(d, "d0.vcf"), os.path.join(d, "d1.vcf")]
    multi = {i: (3 if any("3" in k[1:] for k in (p0[i], p1[i])) else 2) for i in range(len(p0)) if any(set("23") & set(k[1:]) for k in (p0[i], p1[i]))}
    build_vcf(paths[0], [p0], 0, multi_idx=multi)
    build_vcf(paths[1], [p1], 1, multi_idx=multi)
    try:
        res = run_tool(paths)
    except Exception as e:  # noqa
        return [{"clause": "error", "signature": "c11:error:multi-allelic", "detail": f"run_compare failed: {type(e).__name__}: {e} (files {p0} vs {p1})", "instance": inst}], False
    row = res["pair"][0]
    want = sum(1 for a, b in zip(p0, p1) if set(a[1:]) != set(b[1:]))
    viols = []
    if int(row["blockwise_diff_genotypes"]) != want:
        viols.append({"clause": "pairwise:blockwise_diff_genotypes", "signature": "c11:pairwise:blockwise_diff_genotypes:multi-allelic", "detail": f"blockwise_diff_genotypes = {row['blockwise_diff_genotypes']}, the files differ in the genotype of {want} common variant(s) (files {p0} vs {p1})", "instance": inst})
    return viols, want > 0


def judge_invariance(inst):
    """re-ordering the haplotypes of one phase set in one file changes nothing"""
    p0, p1 = inst["p"]
    d = _dir()
    base = None
    viols = []
    for which, setname in [(None, None), (0, "A"), (0, "B"), (1, "A"), (1, "B")]:
        q = [list(p0), list(p1)]
        if which is not None:
            if not any(k[0] == setname for k in q[which]):
                continue
            q[which] = [(k[0] + k[2] + k[1]) if k[0] == setname else k for k in q[which]]
        paths = [os.path.join(d, "f0.vcf"), os.path.join(d, "f1.vcf")]
        build_vcf(paths[0], [q[0]], 0)
        build_vcf(paths[1], [q[1]], 1)
        try:
            res = run_tool(paths)
        except Exception as e:  # noqa
            return [{"clause": "error", "signature": "c11:error", "detail": str(e), "instance": inst}], False
        # the agreement vector itself is oriented arbitrarily when both orientations tie; what
        # must not change are the numbers, the block positions and the number of marked disagreements
        key = (
            {k: v for k, v in res["pair"][0].items() if not k.startswith("file_name")},
            [t[4] for t in res["longest"]],
            sum(1 for t in res["longest"] if t[5] == "0"),
            res["bed"],
        )
        if base is None:
            base = key
        elif key != base:
            viols.append({"clause": "label-invariance", "signature": "c11:label-invariance", "detail": f"outputs change when the haplotypes of set {setname} in file {which} are exchanged: {p0} vs {p1}", "instance": inst})
    return viols, True


def judge_multi(inst):
    ps = inst["p"]
    d = _dir()
    paths = []
    for i, p in enumerate(ps):
        paths.append(os.path.join(d, f"m{i}.vcf"))
        build_vcf(paths[-1], [p], i)
    try:
        res = run_tool(paths, multiway=True)
    except Exception as e:  # noqa
        return [{"clause": "error", "signature": "c11:error", "detail": f"{type(e).__name__}: {e}", "instance": inst}], False
    common, joint = blocks_of(ps, 3)
    hist = {}
    for b in joint.values():
        if len(b) < 2:
            continue
        encs = [senc([int(p[i][1]) for i in b]) for p in ps]
        for j in range(len(b) - 1):
            s = tuple(e[j] for e in encs)
            c = tuple(1 - x for x in s)
            s = min(s, c)
            hist[s] = hist.get(s, 0) + 1
    want = {}
    names = ["file0", "file1", "file2"]
    for s, cnt in hist.items():
        left = ",".join(n for n, x in zip(names, s) if x == 0)
        right = ",".join(n for n, x in zip(names, s) if x == 1)
        want[("{" + left + "}", "{" + right + "}")] = cnt
    got = {(t[2], t[3]): int(t[4]) for t in res["multi"]}
    viols = []
    if got != want:
        viols.append({"clause": "multiway", "signature": "c11:multiway", "detail": f"multiway counts {got}, definition gives {want} for {ps}", "instance": inst})
    return viols, bool(hist)


def judge_gen(inst):
    """any number of files x chromosomes: every pairwise row, the BED records of every pair and chromosome, and the
    multiway table of every chromosome against the definitions"""
    files = inst["files"]
    nf, chroms = len(files), ["chr1", "chr2", "chr3"][: len(files[0])]
    d = _dir()
    paths = []
    # "spell": (position index, (lo, hi)) - at that variant every file is heterozygous over the alleles lo / hi of a
    # two-ALT record; the oracle works on the binary patterns (lo -> 0, hi -> 1)
    spell = inst.get("spell")
    for i, pats in enumerate(files):
        paths.append(os.path.join(d, f"g{i}.vcf"))
        if spell:
            m_, (lo, hi) = spell
            vp = [[(k[0] + {"0": lo, "1": hi}[k[1]] + {"0": lo, "1": hi}[k[2]]) if j == m_ else k for j, k in enumerate(ch)] for ch in pats]
            build_vcf(paths[-1], vp, i, chroms=chroms, multi_idx=(m_,))
        else:
            build_vcf(paths[-1], pats, i, chroms=chroms)
    viols = []

    def V(clause, detail):
        return {"clause": clause, "signature": "c11:" + clause + (":multi-allelic" if spell else ""), "detail": detail + f" (files x chromosomes {files}" + (f", variant {spell[0]} spelled over the alleles {spell[1]}" if spell else "") + ")", "instance": inst}

    try:
        res = run_tool(paths, multiway=nf > 2)
    except Exception as e:  # noqa
        return [V("error", f"run_compare failed: {type(e).__name__}: {e}")], False
    nt = False
    rows = {(r["chromosome"], r["dataset_name0"], r["dataset_name1"]): r for r in res["pair"]}
    if len(rows) != len(res["pair"]):
        viols.append(V("pairwise-rows", f"duplicate rows in the pairwise table: {[(r['chromosome'], r['dataset_name0'], r['dataset_name1']) for r in res['pair']]}"))
    want_rows = set()
    for ci, c in enumerate(chroms):
        for i in range(nf):
            for j in range(i + 1, nf):
                p0, p1 = files[i][ci], files[j][ci]
                common, blocks, tot, per_block, bed = expected_pair(p0, p1)
                key = (c, f"file{i}", f"file{j}")
                want_rows.add(key)
                row = rows.get(key)
                if row is None:
                    viols.append(V("pairwise-rows", f"no pairwise row for {key}"))
                    continue
                checks = [
                    ("intersection_blocks", len(blocks)),
                    ("covered_variants", tot["variants"]),
                    ("all_assessed_pairs", tot["pairs"]),
                    ("all_switches", tot["switches"]),
                    ("all_switchflips", f"{tot['s']}/{tot['f']}"),
                    ("blockwise_hamming", tot["hamming"]),
                ]
                for col, want in checks:
                    if str(row[col]) != str(want):
                        viols.append(V("pairwise:" + col, f"{key}: {col} = {row[col]}, definition gives {want} for {p0} vs {p1}"))
                if per_block:
                    mx = max(len(b["idx"]) for b in per_block)
                    cands = [b for b in per_block if len(b["idx"]) == mx]
                    lpos = [int(t[4]) for t in res["longest"] if (t[3], t[0], t[1]) == key]
                    if not any(lpos == [50 + 30 * x for x in b["idx"]] and int(row["largestblock_switches"]) == b["switches"] and int(row["largestblock_hamming"]) == b["hamming"] for b in cands):
                        viols.append(V("largest-block", f"{key}: longest-block rows at {lpos} / switches {row['largestblock_switches']} / Hamming {row['largestblock_hamming']} match no maximal block of {p0} vs {p1}"))
                gbed = sorted((int(t[1]), int(t[2])) for t in res["bed"] if t[0] == c and t[3] == f"file{i}<-->file{j}")
                if gbed != bed:
                    viols.append(V("bed", f"{key}: BED {gbed}, switch-encoding differences at {bed}"))
                nt = nt or tot["switches"] > 0
        if nf > 2:
            ps = [f[ci] for f in files]
            common, joint = blocks_of(ps, nf)
            hist = {}
            for b in joint.values():
                if len(b) < 2:
                    continue
                encs = [senc([int(p[i][1]) for i in b]) for p in ps]
                for j in range(len(b) - 1):
                    s_ = tuple(e[j] for e in encs)
                    s_ = min(s_, tuple(1 - x for x in s_))
                    hist[s_] = hist.get(s_, 0) + 1
            names = [f"file{i}" for i in range(nf)]
            want = {("{" + ",".join(n for n, x in zip(names, s_) if x == 0) + "}", "{" + ",".join(n for n, x in zip(names, s_) if x == 1) + "}"): cnt for s_, cnt in hist.items()}
            got = {(t[2], t[3]): int(t[4]) for t in res["multi"] if t[1] == c}
            if got != want:
                viols.append(V("multiway", f"{c}: multiway counts {got}, definition gives {want}"))
    extra_rows = set(rows) - want_rows
    if extra_rows:
        viols.append(V("pairwise-rows", f"unexpected pairwise rows {sorted(extra_rows)}"))
    stray = [t for t in res["bed"] if t[0] not in chroms]
    if stray:
        viols.append(V("bed", f"BED records on unknown chromosomes: {stray}"))
    return viols, nt


# ---------------------------------------------------------------- polyploid
def judge_poly(inst):
    ploidy, p0, p1 = inst["ploidy"], inst["p"][0], inst["p"][1]
    d = _dir()
    paths = [os.path.join(d, "q0.vcf"), os.path.join(d, "q1.vcf")]
    multi = tuple(range(len(p0))) if inst.get("two_alts") else ()
    build_vcf(paths[0], [[("A", tuple(a)) for a in p0]], 0, ploidy, multi_idx=multi)
    build_vcf(paths[1], [[("A", tuple(a)) for a in p1]], 1, ploidy, multi_idx=multi)
    viols = []

    def V(clause, detail):
        return {"clause": clause, "signature": "c11:poly-" + clause + (":multi-allelic" if multi else ""), "detail": detail + f" ({p0} vs {p1})", "instance": inst}

    try:
        res = run_tool(paths, ploidy=ploidy)
    except Exception as e:  # noqa
        return [V("error", f"{type(e).__name__}: {e}")], False
    row = res["pair"][0]
    n = len(p0)
    h0 = [[p0[j][i] for j in range(n)] for i in range(ploidy)]
    h1 = [[p1[j][i] for j in range(n)] for i in range(ploidy)]
    match = [j for j in range(n) if sorted(p0[j]) == sorted(p1[j])]
    perms = list(itertools.permutations(range(ploidy)))
    if int(row["blockwise_diff_genotypes"]) != n - len(match):
        viols.append(V("diff-genotypes", f"different genotypes {row['blockwise_diff_genotypes']}, definition {n - len(match)}"))
    if len(match) == n:
        hm = min(sum(ham(h1[i], h0[pi[i]]) for i in range(ploidy)) for pi in perms) / ploidy
        if abs(float(row["blockwise_hamming"]) - hm) > 1e-9:
            viols.append(V("hamming", f"Hamming {row['blockwise_hamming']}, minimum over haplotype correspondences {hm}"))
        # switch errors: min over sequences of permutations that reproduce h1 from h0 at every position
        INF = 10**9
        cur = {pi: (0 if all(h0[pi[i]][0] == h1[i][0] for i in range(ploidy)) else INF) for pi in perms}
        for j in range(1, n):
            nxt = {}
            for pi in perms:
                if not all(h0[pi[i]][j] == h1[i][j] for i in range(ploidy)):
                    nxt[pi] = INF
                    continue
                nxt[pi] = min(cur[pj] + sum(1 for i in range(ploidy) if pi[i] != pj[i]) for pj in perms)
            cur = nxt
        sw = min(cur.values()) / ploidy
        if abs(float(row["all_switches"]) - sw) > 1e-9:
            viols.append(V("switches", f"switch errors {row['all_switches']}, brute force over permutation sequences {sw}"))
        # switches + flips (unit costs): only the total is defined
        cur = {pi: sum(1 for i in range(ploidy) if h0[pi[i]][0] != h1[i][0]) for pi in perms}
        for j in range(1, n):
            nxt = {}
            for pi in perms:
                fl = sum(1 for i in range(ploidy) if h0[pi[i]][j] != h1[i][j])
                nxt[pi] = fl + min(cur[pj] + sum(1 for i in range(ploidy) if pi[i] != pj[i]) for pj in perms)
            cur = nxt
        tot = min(cur.values()) / ploidy
        s_, f_ = (float(x) for x in row["all_switchflips"].split("/"))
        if abs(s_ + f_ - tot) > 1e-9:
            viols.append(V("switchflips", f"switch/flip {row['all_switchflips']} sums to {s_ + f_}, minimum total {tot}"))
        if p0 == p1 and (float(row["all_switches"]) or s_ or f_ or float(row["blockwise_hamming"])):
            viols.append(V("identical-inputs", f"identical inputs give {row}"))
    return viols, p0 != p1


def judge_poly2(inst):
    """two polyploid intersection blocks of different size in one pair of files: the all-blocks columns are sums over
    the blocks, the largest-block columns are those of the larger block"""
    ploidy, sizes, p0, p1 = inst["ploidy"], inst["sizes"], inst["p"][0], inst["p"][1]
    d = _dir()
    paths = [os.path.join(d, "r0.vcf"), os.path.join(d, "r1.vcf")]
    names = ["A"] * sizes[0] + ["B"] * sizes[1]
    build_vcf(paths[0], [[(s_, tuple(a)) for s_, a in zip(names, p0)]], 0, ploidy)
    build_vcf(paths[1], [[(s_, tuple(a)) for s_, a in zip(names, p1)]], 1, ploidy)

    def V(clause, detail):
        return {"clause": clause, "signature": "c11:poly2-" + clause, "detail": detail + f" ({p0} vs {p1}, block sizes {sizes})", "instance": inst}

    try:
        res = run_tool(paths, ploidy=ploidy)
    except Exception as e:  # noqa
        return [V("error", f"{type(e).__name__}: {e}")], False
    row = res["pair"][0]
    cut = sizes[0]
    refs = [poly_reference(ploidy, [tuple(a) for a in p0[:cut]], [tuple(a) for a in p1[:cut]]), poly_reference(ploidy, [tuple(a) for a in p0[cut:]], [tuple(a) for a in p1[cut:]])]
    big = 0 if sizes[0] > sizes[1] else 1
    viols = []
    checks = [
        ("intersection_blocks", 2, 0),
        ("blockwise_diff_genotypes", refs[0][0] + refs[1][0], 0),
        ("largestblock_diff_genotypes", refs[big][0], 0),
        ("all_switches", refs[0][2] + refs[1][2], 1e-9),
        ("largestblock_switches", refs[big][2], 1e-9),
        ("all_assessed_pairs", sum(sz - 1 for sz in sizes), 0),
    ]
    for col, want, tol in checks:
        if abs(float(row[col]) - want) > tol:
            viols.append(V(col, f"{col} = {row[col]}, definition gives {want} (per block: different genotypes {[r[0] for r in refs]}, switches {[r[2] for r in refs]})"))
    s_, f_ = (float(x) for x in row["all_switchflips"].split("/"))
    if abs(s_ + f_ - (refs[0][3] + refs[1][3])) > 1e-9 and refs[0][0] == 0 and refs[1][0] == 0:
        viols.append(V("switchflips", f"switch/flip {row['all_switchflips']} sums to {s_ + f_}, minimum totals per block {[r[3] for r in refs]}"))
    if refs[big][1] is not None and abs(float(row["largestblock_hamming"]) - refs[big][1]) > 1e-9:
        viols.append(V("largestblock_hamming", f"largest block Hamming {row['largestblock_hamming']}, definition {refs[big][1]}"))
    return viols, p0 != p1


def poly_reference(ploidy, p0, p1):
    """definitions for one polyploid block: p0[j] / p1[j] = alleles per haplotype at variant j.
    Returns (diff_genotypes, hamming or None, switches, switch+flip total or None)."""
    n = len(p0)
    h0 = [[p0[j][i] for j in range(n)] for i in range(ploidy)]
    h1 = [[p1[j][i] for j in range(n)] for i in range(ploidy)]
    match = [j for j in range(n) if sorted(p0[j]) == sorted(p1[j])]
    perms = list(itertools.permutations(range(ploidy)))
    INF = 10**9
    # switch errors on the positions with matching genotypes only
    sw = 0.0
    if match:
        cur = None
        for j in match:
            nxt = {}
            for pi in perms:
                if not all(h0[pi[i]][j] == h1[i][j] for i in range(ploidy)):
                    nxt[pi] = INF
                elif cur is None:
                    nxt[pi] = 0
                else:
                    nxt[pi] = min(cur[pj] + sum(1 for i in range(ploidy) if pi[i] != pj[i]) for pj in perms)
            cur = nxt
        sw = min(cur.values()) / ploidy
    hm = None
    if len(match) == n:
        hm = min(sum(ham(h1[i], h0[pi[i]]) for i in range(ploidy)) for pi in perms) / ploidy
    # switches + flips with unit costs over all positions (defined whether or not the genotypes coincide)
    cur = {pi: sum(1 for i in range(ploidy) if h0[pi[i]][0] != h1[i][0]) for pi in perms}
    for j in range(1, n):
        nxt = {}
        for pi in perms:
            fl = sum(1 for i in range(ploidy) if h0[pi[i]][j] != h1[i][j])
            nxt[pi] = fl + min(cur[pj] + sum(1 for i in range(ploidy) if pi[i] != pj[i]) for pj in perms)
        cur = nxt
    tot = min(cur.values()) / ploidy
    return n - len(match), hm, sw, tot


def judge_polyfn(inst):
    """function-level slice: whatshap.cli.compare.compare_block on every second phasing for one first phasing"""
    from whatshap.cli.compare import compare_block

    ploidy, p0 = inst["ploidy"], [tuple(a) for a in inst["p0"]]
    n = len(p0)
    viols = []
    cnt = nt = 0
    arrs = {}
    for col in p0:
        key = tuple(sorted(col))
        arrs[key] = sorted(set(itertools.permutations(key)))
    cols1 = []
    for j, col in enumerate(p0):
        opts = list(arrs[tuple(sorted(col))])
        if inst.get("dosage_variants"):
            # also columns whose genotype differs from the first file (other dosage)
            for d in range(1, ploidy):
                base = tuple([1] * d + [0] * (ploidy - d))
                if tuple(sorted(base)) != tuple(sorted(col)):
                    opts += sorted(set(itertools.permutations(base)))
        cols1.append(opts)
    s0 = ["".join(str(p0[j][i]) for j in range(n)) for i in range(ploidy)]
    for p1 in itertools.product(*cols1):
        cnt += 1
        s1 = ["".join(str(p1[j][i]) for j in range(n)) for i in range(ploidy)]
        try:
            e = compare_block(s0, s1)
        except Exception as ex:  # noqa
            viols.append({"clause": "poly-error", "signature": "c11:poly-error", "detail": f"compare_block({s0}, {s1}) raised {type(ex).__name__}: {ex}", "instance": dict(inst, p1=[list(a) for a in p1])})
            continue
        dg, hm, sw, tot = poly_reference(ploidy, p0, p1)
        bad = []
        if e.diff_genotypes != dg:
            bad.append(f"different genotypes {e.diff_genotypes} != {dg}")
        if abs(float(e.switches) - sw) > 1e-9:
            bad.append(f"switch errors {e.switches}, brute force over permutation sequences on the matching positions {sw}")
        if abs(e.switch_flips.switches + e.switch_flips.flips - tot) > 1e-9:
            bad.append(f"switch/flip {e.switch_flips} sums to {e.switch_flips.switches + e.switch_flips.flips}, minimum total {tot}")
        if hm is not None:
            if abs(float(e.hamming) - hm) > 1e-9:
                bad.append(f"Hamming {e.hamming}, minimum over correspondences {hm}")
            if sw > 0:
                nt += 1
        if bad and len(viols) < 4:
            clause = "poly-switches-partial-match" if (dg and "switch errors" in bad[-1] or (dg and any("switch errors" in b for b in bad))) else "poly-definition"
            viols.append({"clause": clause, "signature": "c11:" + clause, "detail": "; ".join(bad) + f" ({s0} vs {s1})", "instance": dict(inst, p1=[list(a) for a in p1])})
    return viols, cnt, nt


def selftest():
    for n in range(2, 7):
        for h0 in itertools.product((0, 1), repeat=n):
            if h0[0]:
                continue
            for h1 in itertools.product((0, 1), repeat=n):
                s, f = switch_flip(h0, h1)
                assert s + f == brute_switch_flip_total(h0, h1), (h0, h1, s, f)
                assert ham(senc(h0), senc(h1)) == s + 2 * f
    assert switch_flip([0, 0, 0, 1, 1], [0, 0, 1, 0, 0]) == (1, 0)
    assert switch_flip([0, 0, 0, 1, 1], [0, 0, 1, 1, 1]) == (0, 1)


def space(tier):
    T = tier == "thorough"
    full = [s for n in (2, 3) + ((4,) if T else ()) for s in itertools.product(KINDS + ["h"], repeat=n) if canonical(s)]
    for p0 in full:
        for p1 in full:
            if len(p0) == len(p1):
                yield {"kind": "pair", "p": [list(p0), list(p1)]}
    phased = [s for s in itertools.product(KINDS[1:], repeat=4) if canonical(s)]
    if not T:
        for p0 in phased:
            for p1 in phased:
                yield {"kind": "pair", "p": [list(p0), list(p1)]}
    one = lambda n: [tuple("A" + str(a) + str(1 - a) for a in h) for h in itertools.product((0, 1), repeat=n)]  # noqa
    for n in (5,) + ((6, 7) if T else ()):
        for p0 in one(n):
            for p1 in one(n):
                if n <= 5 or p0[0] == "A01":
                    yield {"kind": "pair", "p": [list(p0), list(p1)]}
    # two blocks of 3 + 2 / 4 + 3 with the longest-block orientation stressed
    for n in (7,):
        for p1 in one(n):
            yield {"kind": "pair", "p": [list(one(n)[0]), list(p1)]}
    # diploid genotypes over the alleles of a two-ALT record (1|2, 2|1, 0|2, 2|0) inside a block
    for n in (3, 4):
        for mpos, (lo, hi) in itertools.product(range(n), (("1", "2"), ("0", "2"))):
            def pat(bits):
                return [("A" + (lo + hi if not bit else hi + lo)) if i == mpos else ("A01" if not bit else "A10") for i, bit in enumerate(bits)]
            for b0 in itertools.product((0, 1), repeat=n):
                if b0[0]:
                    continue
                for b1 in itertools.product((0, 1), repeat=n):
                    yield {"kind": "pair", "p": [pat(b0), pat(b1)]}
    # the same record, the two files heterozygous over different allele pairs
    pairs_ = ["01", "10", "12", "21", "02", "20"]
    for n in (3,):
        for mpos in range(n):
            for g0, g1 in itertools.product(pairs_, repeat=2):
                if set(g0) == set(g1):
                    continue
                for b1 in itertools.product((0, 1), repeat=n - 1):
                    rest0 = ["A01"] * (n - 1)
                    rest1 = ["A01" if not bit else "A10" for bit in b1]
                    p0 = rest0[:mpos] + ["A" + g0] + rest0[mpos:]
                    p1 = rest1[:mpos] + ["A" + g1] + rest1[mpos:]
                    yield {"kind": "pairdiff", "p": [p0, p1]}
    # three ALT alleles: different heterozygous genotypes whose allele indices have the same sum (0|3 vs 1|2)
    for mpos in range(3):
        for g0, g1 in itertools.product(["03", "30", "12", "21", "13", "31", "02", "20"], repeat=2):
            if set(g0) == set(g1):
                continue
            for b1 in itertools.product((0, 1), repeat=2):
                rest1 = ["A01" if not bit else "A10" for bit in b1]
                yield {"kind": "pairdiff", "p": [["A01"] * mpos + ["A" + g0] + ["A01"] * (2 - mpos), rest1[:mpos] + ["A" + g1] + rest1[mpos:]]}
    # three files, one block of three variants, one of them heterozygous over the alleles 1/2 (0/2) of a two-ALT record
    # in every file (the tables of a file are used in two pairwise comparisons)
    tri = [tuple("A" + str(a) + str(1 - a) for a in h) for h in itertools.product((0, 1), repeat=3)]
    for a in tri[:4]:
        for b in tri:
            for c in tri:
                for m_ in range(3):
                    for lohi in (("1", "2"),) + ((("0", "2"),) if T else ()):
                        yield {"kind": "gen", "files": [[list(a)], [list(b)], [list(c)]], "spell": [m_, list(lohi)]}
    # label invariance, explicitly
    inv = [s for s in itertools.product(KINDS[1:], repeat=3) if canonical(s)]
    for p0 in inv:
        for p1 in inv:
            yield {"kind": "inv", "p": [list(p0), list(p1)]}
    # multiway
    m = [s for n in (2, 3) for s in itertools.product(KINDS, repeat=n) if canonical(s) and (T or n == 2 or "u" not in s or s.count("u") == 1)]
    m3 = [s for s in m if len(s) == 3 and (T or all(k[0] in "Au" for k in s))]
    m2 = [s for s in m if len(s) == 2]
    for group in (m2, m3):
        for a in group:
            for b in group:
                for c in group if (T or group is m2) else group[::2]:
                    yield {"kind": "multi", "p": [list(a), list(b), list(c)]}
    # three files, one chromosome, pairwise rows and BED of every pair as well; the third file may be homozygous / unphased
    g3 = [s for s in itertools.product(KINDS[1:], repeat=3) if canonical(s)]
    g3c = [s for s in itertools.product(KINDS + ["h"], repeat=3) if canonical(s) and ("h" in s or "u" in s)]
    for a in g3[:: 1 if T else 2]:
        for b in g3[:: 1 if T else 3]:
            for c in g3c:
                yield {"kind": "gen", "files": [[list(a)], [list(b)], [list(c)]]}
    # two files, two / three chromosomes (per-chromosome state: BED records, block statistics)
    c2 = [(g3[0], g3[0]), (g3[0], g3[1]), (g3[0], g3[3]), (g3[1], g3[2]), (("u", "A01", "h"), ("A01", "A01", "A01"))]
    for a in g3:
        for b in g3:
            for x, y in c2:
                yield {"kind": "gen", "files": [[list(a), list(x)], [list(b), list(y)]]}
                if T or (g3.index(a) + g3.index(b)) % 4 == 0:
                    yield {"kind": "gen", "files": [[list(x), list(a), list(y)], [list(y), list(b), list(y)]]}
    # three files, two chromosomes
    for a in g3[::2]:
        for b in g3[:: 1 if T else 4]:
            for x, y in c2:
                yield {"kind": "gen", "files": [[list(a), list(x)], [list(b), list(y)], [list(y), list(a)]]}
    # polyploid, function level (compare_block): every first phasing up to haplotype order x every second phasing
    for ploidy, n in ((3, 2), (3, 3), (3, 4), (4, 2), (4, 3)) + (((3, 5), (4, 4)) if T else ()):
        arr = []
        for dosage in range(1, ploidy):
            base = [1] * dosage + [0] * (ploidy - dosage)
            arr += sorted(set(itertools.permutations(base)))
        seen = set()
        firsts = []
        for p0 in itertools.product(arr, repeat=n):
            rows = tuple(sorted(tuple(p0[j][i] for j in range(n)) for i in range(ploidy)))
            if rows in seen:
                continue
            seen.add(rows)
            firsts.append(p0)
        budget = {(4, 3): 40, (4, 4): 60, (3, 5): 200}.get((ploidy, n))
        if budget and not T:
            firsts = firsts[:: max(1, len(firsts) // budget)]
        elif budget:
            firsts = firsts[:: max(1, len(firsts) // (budget * 4))]
        for p0 in firsts:
            yield {"kind": "polyfn", "ploidy": ploidy, "p0": [list(a) for a in p0], "dosage_variants": ploidy == 3 and n <= 4}
    # polyploid, two blocks of different size through the files; second file: every haplotype order and every other dosage per column
    for ploidy, sizes in ((3, (3, 2)), (3, (2, 3))) + (((4, (3, 2)),) if T else ()):
        gts = [g for g in itertools.product((0, 1), repeat=ploidy) if 0 < sum(g) < ploidy]
        n = sum(sizes)
        firsts = [[gts[(i + o) % len(gts)] for i in range(n)] for o in (0, 2)]
        for p0 in firsts:
            cols = gts if ploidy == 3 else gts[::2]
            for p1 in itertools.product(cols, repeat=n):
                if not T and sum(1 for a, b in zip(p0, p1) if sorted(a) != sorted(b)) > 2:
                    continue
                yield {"kind": "poly2", "ploidy": ploidy, "sizes": list(sizes), "p": [[list(a) for a in p0], [list(a) for a in p1]]}
    # polyploid genotypes over three alleles (two-ALT records): the second file permutes the same columns
    for ploidy, n in ((3, 2), (3, 3)) + (((4, 2),) if T else ()):
        cols3 = sorted({tuple(c) for c in itertools.product((0, 1, 2), repeat=ploidy) if 2 in c and len(set(c)) >= 2 and tuple(sorted(c)) == c} )
        firsts = []
        for p0 in itertools.product(cols3, repeat=n):
            firsts.append(p0)
        firsts = firsts[:: max(1, len(firsts) // (60 if T else 20))]
        for p0 in firsts:
            yield {"kind": "polyfn", "ploidy": ploidy, "p0": [list(a) for a in p0], "dosage_variants": False}
    # polyploid through the files with two-ALT records: every column over the alleles 0/1/2 against every other one
    # (also different genotypes with the same sum of allele indices, 0|0|2 vs 0|1|1)
    for ploidy, n in ((3, 2),) + (((3, 3),) if T else ()):
        cols = [c for c in itertools.product((0, 1, 2), repeat=ploidy) if len(set(c)) >= 2]
        firsts = [c for c in cols if tuple(sorted(c)) == c]
        f0s = list(itertools.product(firsts, repeat=n))
        if n == 3:
            f0s = f0s[::10]  # 100 of the 1000 first phasings of three columns
        for f0 in f0s:
            for p1 in itertools.product(cols, repeat=n):
                if (not T or n == 3) and (cols.index(p1[0]) + 2 * cols.index(p1[-1]) + firsts.index(f0[0])) % 3:
                    continue
                yield {"kind": "poly", "ploidy": ploidy, "two_alts": True, "p": [[list(a) for a in f0], [list(a) for a in p1]]}
    # polyploid, one block, through the files (binds the command line to compare_block)
    for ploidy, nmax in ((3, 3), (4, 2)) + (((3, 4), (4, 3)) if T else ()):
        arr = []
        for dosage in range(1, ploidy):
            base = [1] * dosage + [0] * (ploidy - dosage)
            arr += sorted(set(itertools.permutations(base)))
        for n in range(2, nmax + 1):
            pats = list(itertools.product(arr, repeat=n))
            if not T and len(pats) > 250:
                pats = pats[:: len(pats) // 250 + 1]
            for p0 in pats:
                for p1 in pats:
                    yield {"kind": "poly", "ploidy": ploidy, "p": [[list(a) for a in p0], [list(a) for a in p1]]}


def run_one(inst):
    k = inst["kind"]
    if k == "pair":
        viols, nt = judge_pair(inst)
    elif k == "inv":
        viols, nt = judge_invariance(inst)
    elif k == "multi":
        viols, nt = judge_multi(inst)
    elif k == "gen":
        viols, nt = judge_gen(inst)
    elif k == "pairdiff":
        viols, nt = judge_pairdiff(inst)
    elif k == "poly2":
        viols, nt = judge_poly2(inst)
    elif k == "polyfn":
        viols, cnt, nt = judge_polyfn(inst)
        return Result(n=cnt, nontrivial=nt, violations=viols[:3], outcome=(k, bool(viols)))
    else:
        viols, nt = judge_poly(inst)
    return Result(nontrivial=nt, violations=viols[:3], outcome=(k, bool(viols)))


def run(rep, tier, seed, only=None):
    selftest()

    def sp():
        for i in space(tier):
            if not only or i["kind"] in only:
                yield i

    st = par.explore(sp, run_one, label="C11")
    rep.add_violations(st.violations)
    rep.add_crashes(st.crashes, "C11")
    rep.coverage.update(
        evaluations=st.evaluations,
        distinct_nontrivial=st.nontrivial,
        rule="every pair / triple of phasing patterns of the alphabet (canonical set naming); non-trivial = pair with at least one switch error / differing phasings",
        samples=st.samples[:4],
        exhaustive=True,
        distinct_outcomes=len(st.outcomes),
    )
    rep.assumptions += [
        "ties in 'largest block' are resolved by accepting any maximal block whose reported numbers and positions are mutually consistent",
        "polyploid switch/flip decomposition is not unique: only its total is judged",
        "Hamming / agreement clauses are judged on blocks whose genotypes coincide",
    ]


def replay(v):
    return run_one(v["instance"]).violations
