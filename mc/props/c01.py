"""C01  Exact solver returns a minimum-cost (Ped)MEC solution with a matching witness.

Canonical enumeration of all PedMEC instances inside layered bounds; every instance is
executed once by the real PedigreeDPTable (through whatshap.core) and judged against a
brute-force reference (native/oracle.cpp; pure-Python twin in mc/oracle.py).
"""
import itertools
import os

from mc import oracle, par
from mc.par import Result

LEVEL = "exploration"

_POOL = None
_GT = None


def name_pool(seed=None):
    """Read names whose tie-break order inside ReadSet.sort() (hash of the name) is known:
    pool[i] sorts before pool[j] for i < j when the first positions are equal.  This lets an
    instance fix the exact order of its rows after sorting."""
    global _POOL
    if _POOL is None:
        from whatshap.core import Read, ReadSet

        seed = int(os.environ.get("VERIF_SEED", "0")) if seed is None else seed
        rs = ReadSet()
        for i in range(24):
            r = Read(f"q{seed}x{i}", 50, 0, 0)
            r.add_variant(10, 0, 1)
            rs.add(r)
        rs.sort()
        _POOL = [r.name for r in rs]
    return _POOL


def _gts():
    global _GT
    if _GT is None:
        from whatshap.core import Genotype

        _GT = [Genotype([0, 0]), Genotype([0, 1]), Genotype([1, 1])]
    return _GT


def run_impl(inst, explicit_positions):
    """Execute the real solver.  Returns ("raise", message) or a dict."""
    from whatshap.core import NumericSampleIds, Pedigree, PedigreeDPTable, PhredGenotypeLikelihoods, Read, ReadSet

    n_ind, trios = oracle.PEDS[inst["ped"]]
    C = inst["C"]
    pool = name_pool()
    nsi = NumericSampleIds()
    ids = [nsi[f"ind{i}"] for i in range(n_ind)]
    rs = ReadSet()
    for i, (ind, alleles, weights) in enumerate(inst["reads"]):
        r = Read(pool[i], 50, 0, ids[ind])
        for c in range(C):
            if alleles[c] >= 0:
                r.add_variant((c + 1) * 10, alleles[c], weights[c])
        rs.add(r)
    rs.sort()
    order = [pool.index(r.name) for r in rs]
    ped = Pedigree(nsi)
    G = _gts()
    for i in range(n_ind):
        if inst["distrust"]:
            gts = [G[1]] * C
            gls = [PhredGenotypeLikelihoods(list(inst["gl"][i][c])) for c in range(C)]
            ped.add_individual(f"ind{i}", gts, gls)
        else:
            # trusted genotypes: likelihoods handed over all the same (every other instance) must not enter the cost
            gls = None
            if (len(inst["reads"]) + C + sum(inst["gt"][i])) % 2 == 0:
                gls = [PhredGenotypeLikelihoods([3 + c, 7, 11 + i]) for c in range(C)]
            ped.add_individual(f"ind{i}", [G[inst["gt"][i][c]] for c in range(C)], gls)
    for f, m, c in trios:
        ped.add_relationship(f"ind{f}", f"ind{m}", f"ind{c}")
    positions = [(c + 1) * 10 for c in range(C)] if explicit_positions else None
    try:
        dp = PedigreeDPTable(rs, list(inst["rc"]), ped, bool(inst["distrust"]), positions)
        # the three observers are queried in an order that depends on the instance (every order occurs), the
        # partitioning sometimes twice: what one of them reports must not depend on what was asked before
        h = (len(inst["reads"]) * 7 + C * 3 + sum(a for _i, al, _w in inst["reads"] for a in al if a >= 0) + sum(w for _i, _al, ws in inst["reads"] for w in ws) + n_ind) % 8
        calls = [("s", "c", "p"), ("p", "s", "c"), ("c", "p", "s"), ("p", "c", "s"), ("s", "p", "c"), ("c", "s", "p"), ("p", "p", "s", "c"), ("p", "s", "p", "c")][h]
        got = {}
        for what in calls:
            if what == "s":
                got["s"] = dp.get_super_reads()
            elif what == "c":
                got["c"] = dp.get_optimal_cost()
            else:
                got["p"] = dp.get_optimal_partitioning()
        superreads, tv = got["s"]
        cost = got["c"]
        part = got["p"]
    except RuntimeError as e:
        return ("raise", str(e))
    part_bits = 0
    for k, p in zip(order, part):
        part_bits |= (1 if p else 0) << k
    sr = []
    for i in range(n_ind):
        haps = []
        for h in (0, 1):
            haps.append([(v.position, v.allele) for v in superreads[i][h]])
        sr.append(haps)
    return {"cost": cost, "part": part_bits, "order": order, "tv": list(tv), "superreads": sr}


def _v(clause, detail, inst, explicit, **kw):
    d = {"clause": clause, "signature": "c01:" + clause, "detail": detail, "instance": {"inst": inst, "explicit_positions": explicit}}
    d.update(kw)
    return d


def judge(inst, explicit, stats=None):
    """All clauses of C01 for one instance.  Returns (violations, per-convention failures, flags)."""
    ci = oracle.CInst(inst)
    want = ci.min(1)
    res = run_impl(inst, explicit)
    n_ind, trios = oracle.PEDS[inst["ped"]]
    C = inst["C"]
    if want == -1:
        if res[0] != "raise" if isinstance(res, tuple) else True:
            return [_v("infeasible-accepted", f"no admissible solution exists but the solver returned {res}", inst, explicit)], {}, {"infeasible": 1}
        return [], {}, {"infeasible": 1}
    if isinstance(res, tuple):
        return [_v("feasible-rejected", f"solver raised {res[1]!r}; optimum is {want}", inst, explicit)], {}, {}
    viols = []
    if res["cost"] != want:
        viols.append(_v("cost", f"reported cost {res['cost']}, true minimum {want}", inst, explicit, observed=res))
    if len(res["tv"]) != C:
        viols.append(_v("tv-length", f"transmission vector has {len(res['tv'])} entries for {C} columns", inst, explicit, observed=res))
        return viols, {}, {}
    convfail = {}
    convs = (0, 1, 2, 3) if trios else (0,)
    flags = {"nonzero": 1 if want > 0 else 0, "ties": 0, "overflag": 0}
    for conv in convs:
        wcost, masks = ci.eval(conv, res["part"], res["tv"])
        problems = []
        if wcost != res["cost"]:
            problems.append(f"witness (partition bits {res['part']:b}, transmission {res['tv']}) evaluates to {wcost}, reported {res['cost']}")
        else:
            for i in range(n_ind):
                for h in (0, 1):
                    hap = res["superreads"][i][h]
                    if [p for p, _ in hap] != [(c + 1) * 10 for c in range(C)]:
                        problems.append(f"super-read positions {[p for p, _ in hap]}")
                        break
                    for c in range(C):
                        a = hap[c][1]
                        m = masks[(c * n_ind + i) * 2 + h]
                        if a in (0, 1):
                            if m != (1 << a):
                                problems.append(
                                    f"column {c} individual {i} haplotype {h}: returned allele {a} not flagged as tie, "
                                    f"but optimal assignments carry alleles mask {m}"
                                )
                        elif a == 3:
                            if conv == convs[0]:
                                flags["ties"] += 1
                                if m != 3:
                                    flags["overflag"] += 1
                        else:
                            problems.append(f"column {c} individual {i} haplotype {h}: allele code {a}")
        if problems:
            convfail[conv] = problems[0]
    if len(convfail) == len(convs):
        # fails under every reading of the transmission bits
        viols.append(_v("witness", convfail[convs[0]], inst, explicit, observed=res, per_convention=convfail))
        convfail = {}
    return viols, convfail, flags


# ----------------------------------------------------------------------------- spaces
def patterns(C):
    """all rows over {-1,0,1}^C with >= 1 entry, grouped by first covered column"""
    by_first = [[] for _ in range(C)]
    for p in itertools.product((-1, 0, 1), repeat=C):
        f = next((i for i, a in enumerate(p) if a >= 0), None)
        if f is not None:
            by_first[f].append(p)
    return by_first


def row_sequences(kinds_by_first, R):
    """all sequences of R row kinds with non-decreasing first column (= all distinct sorted read sets)"""
    flat = [(f, k) for f, ks in enumerate(kinds_by_first) for k in ks]

    def rec(prefix, minf, n):
        if n == 0:
            yield tuple(prefix)
            return
        for f, k in flat:
            if f >= minf:
                prefix.append(k)
                yield from rec(prefix, f, n - 1)
                prefix.pop()

    yield from rec([], 0, R)


MENDEL_OK = None

GL_SET = [(0, 0, 0), (0, 3, 7), (3, 0, 3), (7, 3, 0), (7, 0, 1)]


class Layer:
    """One completely crossed slice of the instance space."""

    def __init__(self, name, ped, R, C, gts=None, gls=None, rcs=None, weights=None, explicit=(False,), read_inds=None, minlen=1, entry_weights=False):
        self.name, self.ped, self.R, self.C = name, ped, R, C
        self.n_ind = oracle.PEDS[ped][0]
        self.gts = gts  # list of per-column genotype tuples (one index per individual) or None -> all het
        self.gls = gls  # list of per-column GL tuples (one triple per individual) -> distrust mode
        self.rcs = rcs or [0]
        self.weights = weights or [1]
        self.explicit = explicit
        self.read_inds = read_inds if read_inds is not None else list(range(self.n_ind))
        self.minlen = minlen
        self.entry_weights = entry_weights

    def kinds(self):
        by_first = patterns(self.C)
        out = []
        for ps in by_first:
            ks = []
            for p in ps:
                if sum(1 for a in p if a >= 0) < self.minlen:
                    continue
                for ind in self.read_inds:
                    ks.append((ind, p))
            out.append(ks)
        return out

    def blocks(self):
        """block = (layer name, prefix of R-1 row kinds); the last row and all variations are
        enumerated inside run_block"""
        if self.R == 0:
            yield (self.name, ())
            return
        for seq in row_sequences(self.kinds(), self.R - 1):
            yield (self.name, seq)

    def instances(self, prefix):
        C = self.C
        kinds = self.kinds()
        if self.R == 0:
            lasts = [None]
        else:
            minf = 0
            if prefix:
                minf = next(i for i, a in enumerate(prefix[-1][1]) if a >= 0)
            lasts = [k for f, ks in enumerate(kinds) if f >= minf for k in ks]
        col_gt = self.gts if self.gts is not None else [tuple([1] * self.n_ind)]
        for last in lasts:
            rows = list(prefix) + ([last] if last is not None else [])
            covered = [any(p[c] >= 0 for _, p in rows) for c in range(C)]
            allcov = all(covered)
            if self.entry_weights:
                nent = sum(1 for _, p in rows for a in p if a >= 0)
                wpatterns = itertools.product(self.weights, repeat=nent)
            else:
                wpatterns = itertools.product(self.weights, repeat=len(rows))
            for wp in wpatterns:
                reads = []
                k = 0
                for r, (ind, p) in enumerate(rows):
                    if self.entry_weights:
                        ws = []
                        for a in p:
                            if a >= 0:
                                ws.append(wp[k])
                                k += 1
                            else:
                                ws.append(0)
                    else:
                        ws = [wp[r] if a >= 0 else 0 for a in p]
                    reads.append([ind, list(p), ws])
                for rc_tail in itertools.product(self.rcs, repeat=max(0, C - 1)):
                    rc = [self.rcs[-1]] + list(rc_tail) if C else []
                    if self.gls is not None:
                        for glcols in itertools.product(self.gls, repeat=C):
                            gl = [[list(glcols[c][i]) for c in range(C)] for i in range(self.n_ind)]
                            inst = {"ped": self.ped, "C": C, "reads": reads, "distrust": True, "gl": gl, "rc": rc}
                            for ex in self.explicit:
                                if allcov or ex:
                                    yield inst, ex
                    else:
                        for gtcols in itertools.product(col_gt, repeat=C):
                            gt = [[gtcols[c][i] for c in range(C)] for i in range(self.n_ind)]
                            inst = {"ped": self.ped, "C": C, "reads": reads, "distrust": False, "gt": gt, "rc": rc}
                            for ex in self.explicit:
                                if allcov or ex:
                                    yield inst, ex


def all_gt(n_ind):
    return list(itertools.product((0, 1, 2), repeat=n_ind))


def gl_cols(n_ind, triples):
    return list(itertools.product(triples, repeat=n_ind))


def layers(tier):
    T = tier == "thorough"
    L = []
    # L1 default configuration: single individual, all heterozygous, trusted
    shapes = [(R, C) for C in range(1, 6) for R in range(1, 6) if R * C <= 12]
    if T:
        shapes += [(5, 3), (6, 2), (3, 5), (7, 1), (6, 1)]
    for R, C in shapes:
        L.append(Layer(f"L1-unit-{R}x{C}", "single", R, C))
    for R, C in [(R, C) for C in range(1, 5) for R in range(1, 5) if R * C <= (9 if T else 8)]:
        L.append(Layer(f"L1-w12-{R}x{C}", "single", R, C, weights=[1, 2]))
    for R, C in [(1, 2), (2, 2), (1, 3), (2, 3)] + ([(3, 2)] if T else []):
        L.append(Layer(f"L1-entryw-{R}x{C}", "single", R, C, weights=[0, 1, 3] if R * C <= 4 or T else [1, 3], entry_weights=True))
    # explicit position lists with uncovered columns
    for R, C in [(1, 3), (2, 3), (2, 4)] + ([(3, 3), (3, 4)] if T else []):
        L.append(Layer(f"L1-positions-{R}x{C}", "single", R, C, explicit=(True,), gts=[(1,), (0,), (2,)] if C <= 3 else None))
    L.append(Layer("L1-empty", "single", 0, 0, explicit=(False, True)))
    # L2 genotype modes, single individual
    for R, C in [(R, C) for C in (1, 2, 3) for R in (1, 2, 3) if (T or R * C <= 6)]:
        L.append(Layer(f"L2-gt-{R}x{C}", "single", R, C, gts=all_gt(1), weights=[1, 2] if R * C <= 6 else [1]))
        gls = gl_cols(1, GL_SET if (T or C <= 2) else GL_SET[:3])
        L.append(Layer(f"L2-gl-{R}x{C}", "single", R, C, gls=gls, weights=[1, 2] if R * C <= 4 else [2]))
    # distrusted genotypes with explicit position lists (uncovered leading / inner / trailing columns)
    for R, C in [(1, 2), (1, 3), (2, 3)] + ([(2, 4), (3, 3)] if T else []):
        L.append(Layer(f"L2-glpos-{R}x{C}", "single", R, C, gls=gl_cols(1, GL_SET if C <= 2 else GL_SET[1:4]), weights=[2], explicit=(True,)))
    L.append(Layer("L3-trio-glpos-1x2", "trio", 1, 2, gls=gl_cols(3, [(0, 3, 7), (3, 0, 3), (7, 3, 0)])[:: (1 if T else 3)], rcs=[1, 4], weights=[3], explicit=(True,)))
    # two unrelated individuals in one table
    for R, C in [(2, 2), (3, 2)] + ([(3, 3), (4, 2)] if T else []):
        L.append(Layer(f"L2-pair-{R}x{C}", "pair", R, C, gts=[(1, 1), (1, 0), (2, 1)] if C <= 2 else None))
    # L3 trio
    trio_rc = [0, 1, 4]
    W3 = [3]
    for R, C in [(0, 1), (1, 1), (2, 1), (3, 1)] + ([(4, 1)] if T else []):
        L.append(Layer(f"L3-trio-gt-{R}x{C}", "trio", R, C, gts=all_gt(3), rcs=[1], weights=W3))
    L.append(Layer("L3-trio-gt-0x2", "trio", 0, 2, gts=all_gt(3), rcs=trio_rc, explicit=(True,), weights=W3))
    L.append(Layer("L3-trio-gt-1x2", "trio", 1, 2, gts=all_gt(3), rcs=trio_rc, weights=W3))
    het_plus = [(1, 1, 1), (1, 0, 1), (0, 1, 1), (1, 1, 0), (1, 1, 2), (1, 2, 1), (2, 1, 1), (0, 2, 1), (1, 0, 0), (0, 0, 1)]
    L.append(Layer("L3-trio-gt-2x2", "trio", 2, 2, gts=all_gt(3) if T else het_plus, rcs=trio_rc, weights=W3))
    L.append(Layer("L3-trio-gt-3x2", "trio", 3, 2, gts=het_plus if T else het_plus[:5], rcs=trio_rc if T else [1, 4], weights=W3))
    L.append(Layer("L3-trio-gt-2x3", "trio", 2, 3, gts=het_plus[:6] if T else het_plus[:3], rcs=trio_rc if T else [1, 4], weights=W3))
    if T:
        L.append(Layer("L3-trio-gt-4x2", "trio", 4, 2, gts=het_plus[:4], rcs=[1, 4], weights=W3))
        L.append(Layer("L3-trio-gt-3x3", "trio", 3, 3, gts=het_plus[:3], rcs=[1, 3], weights=W3))
    tri = gl_cols(3, [(0, 3, 7), (3, 0, 3), (7, 3, 0)])
    L.append(Layer("L3-trio-gl-1x2", "trio", 1, 2, gls=tri if T else tri[:9], rcs=[1, 4], weights=W3))
    L.append(Layer("L3-trio-gl-2x2", "trio", 2, 2, gls=tri[:9] if T else tri[:4], rcs=[1, 4] if T else [1], weights=[2]))
    L.append(Layer("L3-trio-gl-2x1", "trio", 2, 1, gls=gl_cols(3, GL_SET[:4]), rcs=[1], weights=[1, 4]))
    # L4 quartet
    q_het = [(1, 1, 1, 1), (1, 0, 1, 0), (0, 1, 1, 0), (1, 2, 1, 2), (1, 1, 0, 2), (1, 1, 2, 2), (0, 2, 1, 1), (1, 0, 0, 0)]
    L.append(Layer("L4-quartet-gt-1x1", "quartet", 1, 1, gts=all_gt(4), rcs=[1], weights=W3))
    L.append(Layer("L4-quartet-gt-2x1", "quartet", 2, 1, gts=all_gt(4) if T else q_het, rcs=[1], weights=W3))
    L.append(Layer("L4-quartet-gt-1x2", "quartet", 1, 2, gts=q_het, rcs=trio_rc, weights=W3))
    L.append(Layer("L4-quartet-gt-2x2", "quartet", 2, 2, gts=q_het if T else q_het[:3], rcs=trio_rc if T else [1, 4], weights=W3))
    if T:
        L.append(Layer("L4-quartet-gt-3x2", "quartet", 3, 2, gts=q_het[:2], rcs=[1, 4], weights=W3))
        L.append(Layer("L4-quartet-gt-2x3", "quartet", 2, 3, gts=q_het[:1], rcs=[1, 4], weights=W3))
    return L


# L5: long instances (checkpointing k = floor(sqrt(C)) >= 2 from C = 4, 3 at 9, 4 at 16)
def long_reads(C, gaps):
    """reads given as (start, end, hap, flipped column or None, gap column or None)"""
    out = []
    for s in range(C):
        for e in range(s, C):
            for h in (0, 1):
                out.append((s, e, h, None, None))
                if e > s:
                    out.append((s, e, h, s, None))  # error at the first covered column
                    out.append((s, e, h, e, None))  # error at the last covered column
                if gaps and e - s >= 2:
                    out.append((s, e, h, None, s + 1))
    return out


def long_blocks(tier):
    T = tier == "thorough"
    for C in ([4, 5, 6, 7, 8, 9, 10, 16, 17] if T else [4, 5, 6, 9]):
        spans = long_reads(C, gaps=(C <= 6))
        if C > 10:
            # long tables: reads restricted to those touching a checkpoint boundary region
            spans = [s for s in spans if (s[1] - s[0]) in (1, 2, C // 2, C - 1) or s[0] == s[1]]
        for i, a in enumerate(spans):
            yield ("L5", C, i)


def long_instances(C, i, tier):
    T = tier == "thorough"
    spans = long_reads(C, gaps=(C <= 6))
    if C > 10:
        spans = [s for s in spans if (s[1] - s[0]) in (1, 2, C // 2, C - 1) or s[0] == s[1]]
    hap = [[c % 2 for c in range(C)], [1 - c % 2 for c in range(C)]]

    def row(sp):
        s, e, h, flip, gap = sp
        p = [-1] * C
        for c in range(s, e + 1):
            p[c] = hap[h][c]
        if flip is not None:
            p[flip] ^= 1
        if gap is not None:
            p[gap] = -1
        return p

    a = spans[i]
    maxr = 3 if (C <= 7 or (T and C <= 9)) else 2
    for j in range(len(spans)):
        b = spans[j]
        if b[0] < a[0]:
            continue
        thirds = [None]
        if maxr == 3:
            thirds = [None] + [t for t in spans if t[0] >= b[0] and (t[3] is None and t[4] is None)]
        for t in thirds:
            rows = [row(a), row(b)] + ([row(t)] if t else [])
            if not all(any(r[c] >= 0 for r in rows) for c in range(C)):
                continue
            reads = [[0, r, [2 if k == 0 else 1 if a_ >= 0 else 0 for a_ in r]] for k, r in enumerate(rows)]
            for r in reads:
                r[2] = [w if al >= 0 else 0 for w, al in zip(r[2], r[1])]
            inst = {"ped": "single", "C": C, "reads": reads, "distrust": False, "gt": [[1] * C], "rc": [0] * C}
            yield inst, False
            if t is None and C <= 9:
                # the same two reads in a trio: read a from the child, read b from the father
                treads = [[2, reads[0][1], reads[0][2]], [0, reads[1][1], reads[1][2]]]
                for rcv in (1, 3):
                    gt = [[1] * C, [1] * C, [1] * C]
                    yield {"ped": "trio", "C": C, "reads": treads, "distrust": False, "gt": gt, "rc": [rcv] * C}, False


# ----------------------------------------------------------------------------- wide columns / many trios
WIDE_C = 4


def wide_blocks(tier):
    """W17: columns with 17 and more active reads (bipartition indices beyond 16 bits).
    P5: a pedigree with five trios (transmission values beyond 8 bits)."""
    T = tier == "thorough"
    for R in (17, 18) + ((19,) if T else ()):
        for mi in range(len(wide_masks(R))):
            yield ("W17", R, mi)
    pats = child_patterns(3)
    for a in range(len(pats)):
        for b in range(len(pats)):
            yield ("P5", 3, a, b)


def wide_masks(R):
    """which of the R - 1 wide reads stem from haplotype 1 (the others from haplotype 0)"""
    n = R - 1
    out = [1 << j for j in sorted({0, 1, 7, 8, 15, n - 1})]
    out += [(1 << 0) | (1 << (n - 1)), (1 << 15) | (1 << (n - 1)), sum(1 << j for j in range(0, n, 2)), sum(1 << j for j in range(n // 2, n)), (1 << n) - 2]
    return out


def wide_instances(R, mi):
    C = WIDE_C
    hap = [[c % 2 for c in range(C)], [1 - c % 2 for c in range(C)]]
    mask = wide_masks(R)[mi]
    n = R - 1
    flips = [None] + [(j, c) for j in (0, 15, n - 1) for c in (0, 1, 2)]
    for flip in flips:
        for tail_hap in (0, 1):
            for first_end in (2, 3):
                rows = []
                for j in range(n):
                    h = (mask >> j) & 1
                    # read 0 reaches into the last column; the others end at column 2 (every column before the last holds all wide reads)
                    e = first_end if j == 0 else 2
                    row = [hap[h][c] if c <= e else -1 for c in range(C)]
                    if flip and flip[0] == j:
                        row[flip[1]] ^= 1
                    rows.append(row)
                # the last read starts in the last column (or one before) and stems from tail_hap
                rows.append([hap[tail_hap][c] if c >= 2 else -1 for c in range(C)])
                reads = [[0, r, [(2 if k == 0 else 1) if a_ >= 0 else 0 for a_ in r]] for k, r in enumerate(rows)]
                yield {"ped": "single", "C": C, "reads": reads, "distrust": False, "gt": [[1] * C], "rc": [0] * C}, False


def child_patterns(C):
    """genotype rows of a child of a 0/1 x 0/0 mating: heterozygous (1) where it inherited the father's ALT haplotype"""
    out = [[1] * C, [0] * C]
    for sw in range(1, C):
        out.append([1] * sw + [0] * (C - sw))
        out.append([0] * sw + [1] * (C - sw))
    return out


def five_instances(C, a, b):
    pats = child_patterns(C)
    for c3 in range(len(pats)):
        for c4 in (0, 2, 3):
            for c5 in range(len(pats)):
                kids = [pats[a], pats[b], pats[c3], pats[c4], pats[c5]]
                gt = [[1] * C, [0] * C] + kids
                for rd in (0, 1):
                    # two reads of the father (one per haplotype); rd = 1 adds a read of the fifth child
                    reads = [[0, [1] * C, [1] * C], [0, [0] * C, [1] * C]]
                    if rd:
                        reads.append([6, list(kids[4]), [1] * C])
                    yield {"ped": "five-children", "C": C, "reads": reads, "distrust": False, "gt": gt, "rc": [5] * C}, False


_LAYERS = {}


def _layer(tier, name):
    if tier not in _LAYERS:
        _LAYERS[tier] = {l.name: l for l in layers(tier)}
    return _LAYERS[tier][name]


def make_run_block(tier):
    def run_block(block):
        if block[0] == "L5":
            it = long_instances(block[1], block[2], tier)
        elif block[0] == "W17":
            it = wide_instances(block[1], block[2])
        elif block[0] == "P5":
            it = five_instances(block[1], block[2], block[3])
        else:
            it = _layer(tier, block[0]).instances(block[1])
        n = nt = 0
        viols = []
        extra = {}
        outcomes = set()
        for inst, ex in it:
            vs, convfail, flags = judge(inst, ex)
            n += 1
            if flags.get("nonzero") and len(inst["reads"]) >= 2:
                nt += 1
            for k, v in flags.items():
                if v:
                    extra[k] = extra.get(k, 0) + v
            for conv, msg in convfail.items():
                extra[f"convfail{conv}"] = extra.get(f"convfail{conv}", 0) + 1
                if conv == 0 and len(viols) < 8:
                    # samples are kept for the pinned reading only; the other readings are counted
                    viols.append(_v("witness", msg, inst, ex, conv=conv))
            if inst["ped"] in ("trio", "quartet", "five-children") and not flags.get("infeasible"):
                extra["pedigree_instances"] = extra.get("pedigree_instances", 0) + 1
            if vs and len(viols) < 8:
                viols.extend(vs)
        return Result(n=n, nontrivial=nt, violations=viols, extra=extra, outcome=(block[0], n > 0))

    return run_block


def selftest():
    """python twin == C oracle (both modes) on a fixed sub-space; hand-computed values."""
    import random

    rnd = random.Random(12345)
    # hand-computed: two conflicting reads over two het columns -> cost = min weight
    inst = {"ped": "single", "C": 2, "reads": [[0, [0, 0], [5, 5]], [0, [0, 1], [2, 3]]], "distrust": False, "gt": [[1, 1]], "rc": [0, 0]}
    # haplotypes must be complementary (het): reads 00 and 01 -> either same side (cost 2: flip col1 of read 2 ... )
    assert oracle.CInst(inst).min(0) == oracle.CInst(inst).min(1) == oracle.py_pedmec_min(inst) == 2
    # a single read 0,0 over het columns: haplotype 00 is not het-compatible? (0|1 and 1|0 per column are) -> cost 0
    inst = {"ped": "single", "C": 2, "reads": [[0, [0, 0], [1, 1]]], "distrust": False, "gt": [[1, 1]], "rc": [0, 0]}
    assert oracle.CInst(inst).min(1) == 0
    # homozygous ref column with an alt entry of weight 4 costs 4
    inst = {"ped": "single", "C": 1, "reads": [[0, [1], [4]]], "distrust": False, "gt": [[0]], "rc": [0]}
    assert oracle.CInst(inst).min(1) == oracle.py_pedmec_min(inst) == 4
    # trio with a Mendelian conflict: father 0/0, mother 0/0, child 1/1 -> infeasible
    inst = {"ped": "trio", "C": 1, "reads": [], "distrust": False, "gt": [[0], [0], [2]], "rc": [0]}
    assert oracle.CInst(inst).min(1) == oracle.py_pedmec_min(inst) == -1
    # distrust: same, each genotype change costs 7 -> cheapest repair
    inst = {"ped": "trio", "C": 1, "reads": [], "distrust": True, "gl": [[[0, 7, 7]], [[0, 7, 7]], [[9, 9, 0]]], "rc": [0]}
    assert oracle.CInst(inst).min(1) == oracle.py_pedmec_min(inst) == 9
    for _ in range(300):
        ped = rnd.choice(["single", "pair", "trio", "quartet"])
        n_ind = oracle.PEDS[ped][0]
        C = rnd.randint(1, 3 if ped != "quartet" else 2)
        R = rnd.randint(0, 3)
        reads = []
        for _r in range(R):
            al = [rnd.choice((-1, 0, 1)) for _ in range(C)]
            reads.append([rnd.randrange(n_ind), al, [rnd.choice((1, 2, 5)) if a >= 0 else 0 for a in al]])
        distrust = rnd.random() < 0.4
        inst = {"ped": ped, "C": C, "reads": reads, "distrust": distrust, "rc": [rnd.choice((0, 1, 3)) for _ in range(C)]}
        if distrust:
            inst["gl"] = [[[rnd.choice((0, 3, 7)) for _ in range(3)] for _ in range(C)] for _ in range(n_ind)]
        else:
            inst["gt"] = [[rnd.choice((0, 1, 1, 2)) for _ in range(C)] for _ in range(n_ind)]
        ci = oracle.CInst(inst)
        a, b, c = ci.min(0), ci.min(1), oracle.py_pedmec_min(inst)
        assert a == b == c, (inst, a, b, c)
        if a >= 0:
            part = rnd.randrange(1 << R)
            tv = [rnd.randrange(4 ** len(oracle.PEDS[ped][1])) for _ in range(C)]
            for conv in range(4):
                x, m = ci.eval(conv, part, tv)
                y, m2 = oracle.py_pedmec_eval(inst, conv, [(part >> r) & 1 for r in range(R)], tv)
                assert x == y and (x < 0 or m == m2), (inst, conv, x, y, m, m2)


def run(rep, tier, seed, only=None):
    selftest()
    name_pool(seed)
    run_block = make_run_block(tier)
    L = layers(tier)

    def space():
        for l in L:
            if only and not any(l.name.startswith(o) for o in only):
                continue
            yield from l.blocks()
        if not only or "L5" in only:
            yield from long_blocks(tier)
        if not only or "wide" in only:
            yield from wide_blocks(tier)

    st = par.explore(space, run_block, label="C01")
    rep.add_crashes(st.crashes, "C01")
    # witness clause: one fixed reading of the transmission bits must work for every instance
    fails = {c: st.extra.get(f"convfail{c}", 0) for c in range(4)}
    good = [c for c, n in fails.items() if n == 0]
    viols = [v for v in st.violations if v["clause"] != "witness" or "conv" not in v]
    if not good:
        viols += [v for v in st.violations if v.get("conv") == 0][:3]
    rep.add_violations(viols)
    rep.coverage.update(
        evaluations=st.evaluations,
        distinct_nontrivial=st.nontrivial,
        rule="every instance of the layered space (distinct by construction: row sequences are enumerated in sorted order "
        "with controlled tie-breaks); non-trivial = at least two reads and a non-zero optimum",
        samples=[{"block": s} for s in st.samples[:6]],
        exhaustive=True,
        layers=[l.name for l in L if not only or any(l.name.startswith(o) for o in only)] + ["L5", "W17 (17-19 active reads per column)", "P5 (five trios)"],
        infeasible_instances=st.extra.get("infeasible", 0),
        pedigree_instances=st.extra.get("pedigree_instances", 0),
        tie_flags_seen=st.extra.get("ties", 0),
        tie_flags_without_tie=st.extra.get("overflag", 0),
        transmission_bit_conventions_consistent=good,
        distinct_outcomes=len(st.outcomes),
    )
    rep.assumptions += [
        "weights, genotype likelihoods and recombination costs from the small listed value sets",
        "the meaning of the two transmission bits per trio is not documented: the witness must be consistent under one fixed reading for the whole run",
    ]


def replay(v):
    i = v["instance"]
    vs, convfail, flags = judge(i["inst"], i["explicit_positions"])
    out = list(vs)
    if convfail and 0 in convfail:
        out.append({"clause": "witness", "detail": convfail[0]})
    return out
