"""C19  Genotype indexing is a bijection; edit distance is true Levenshtein distance.

Complete enumeration of (a) all genotypes (allele multisets) up to a ploidy/allele bound with
all pairs compared, plus complete slices up to the hard limits, and (b) all ordered string
pairs over a small alphabet up to a length bound x all band widths, against independent
references (the VCF specification's genotype ordering; full-matrix Levenshtein).
"""
import copy
import itertools
import math
import pickle

from mc import par
from mc.par import Result

LEVEL = "exploration"


# ---------------------------------------------------------------- references
def vcf_order(ploidy, n_alleles):
    """Genotype ordering as defined by the VCF specification (recursive definition)."""
    if ploidy == 0:
        yield ()
        return
    for a in range(n_alleles):
        for prefix in vcf_order(ploidy - 1, a + 1):
            yield prefix + (a,)


def closed_index(alleles):
    """Combinatorial number system rank of a sorted allele tuple (validated against vcf_order)."""
    return sum(math.comb(a + i, i + 1) for i, a in enumerate(sorted(alleles)))


def levenshtein(s, t):
    m, n = len(s), len(t)
    d = [[0] * (n + 1) for _ in range(m + 1)]
    for i in range(m + 1):
        d[i][0] = i
    for j in range(n + 1):
        d[0][j] = j
    for i in range(1, m + 1):
        si = s[i - 1]
        row, prow = d[i], d[i - 1]
        for j in range(1, n + 1):
            row[j] = min(prow[j] + 1, row[j - 1] + 1, prow[j - 1] + (si != t[j - 1]))
    return d[m][n]


def selftest():
    # closed form == specification order on the full quick space
    for p in range(1, 7):
        for i, g in enumerate(vcf_order(p, 6)):
            assert closed_index(g) == i, (p, g, i)
        assert i + 1 == math.comb(6 + p - 1, p)
    # examples written out in the VCF specification / genotype.h
    assert list(vcf_order(2, 3)) == [(0, 0), (0, 1), (1, 1), (0, 2), (1, 2), (2, 2)]
    assert list(vcf_order(4, 3))[5:9] == [(0, 0, 0, 2), (0, 0, 1, 2), (0, 1, 1, 2), (1, 1, 1, 2)]
    assert levenshtein("kitten", "sitting") == 3 and levenshtein("", "abc") == 3 and levenshtein("flaw", "lawn") == 2
    assert levenshtein("ACAC", "CACA") == 2 and levenshtein("AAAA", "AAAA") == 0


# ---------------------------------------------------------------- genotype part
def _v(clause, detail):
    return {"clause": clause, "signature": clause, "detail": detail}


def check_genotype(alleles):
    """All single-genotype clauses for one allele multiset."""
    from whatshap.core import Genotype

    alleles = tuple(sorted(alleles))
    p = len(alleles)
    viols = []
    want = closed_index(alleles)
    # every presentation order of the alleles yields the same genotype (cap the permutations)
    orders = {alleles, alleles[::-1], alleles[1:] + alleles[:1]}
    g = None
    for o in orders:
        try:
            h = Genotype(list(o))
        except Exception as e:  # noqa
            return [_v("gt:construct", f"Genotype({list(o)}) raised {e!r}")], None
        if g is None:
            g = h
        elif not (g == h) or g != h:
            viols.append(_v("gt:order-dependent", f"Genotype({list(o)}) != Genotype({list(alleles)})"))
    idx = g.get_index()
    if idx != want:
        viols.append(_v("gt:index", f"get_index({alleles}) = {idx}, VCF order says {want}"))
    if tuple(sorted(g.as_vector())) != alleles:
        viols.append(_v("gt:as_vector", f"as_vector of {alleles} = {list(g.as_vector())}"))
    if g.get_ploidy() != p:
        viols.append(_v("gt:ploidy", f"ploidy of {alleles} = {g.get_ploidy()}"))
    if g.is_none():
        viols.append(_v("gt:is_none", f"{alleles} reported as none"))
    if g.is_homozygous() != (len(set(alleles)) == 1):
        viols.append(_v("gt:is_homozygous", f"{alleles}: is_homozygous={g.is_homozygous()}"))
    if g.is_diploid_and_biallelic() != (p == 2 and max(alleles) <= 1):
        viols.append(_v("gt:is_diploid_and_biallelic", f"{alleles}: {g.is_diploid_and_biallelic()}"))
    # index -> alleles (the inverse), through the state restore path
    h = Genotype([0] * p)
    h.__setstate__((want, p))
    if tuple(sorted(h.as_vector())) != alleles:
        viols.append(_v("gt:inverse", f"index {want} ploidy {p} -> {sorted(h.as_vector())}, expected {alleles}"))
    if not (h == g) or (h != g):
        viols.append(_v("gt:inverse-eq", f"restored genotype for index {want} ploidy {p} not equal to {alleles}"))
    st = g.__getstate__()
    if tuple(st) != (want, p):
        viols.append(_v("gt:getstate", f"__getstate__({alleles}) = {st}, expected {(want, p)}"))
    if hash(g) != hash(want):
        viols.append(_v("gt:hash", f"hash({alleles}) != hash(index {want})"))
    d = copy.deepcopy(g)
    if not (d == g) or d.get_index() != want or d is g:
        viols.append(_v("gt:deepcopy", f"deepcopy of {alleles} differs"))
    try:
        q = pickle.loads(pickle.dumps(g))
        if not (q == g) or q.get_index() != want or q.get_ploidy() != p:
            viols.append(_v("gt:pickle", f"pickle round trip of {alleles} gives {q}"))
    except TypeError:
        # the class defines __getstate__/__setstate__ (judged above) but no __reduce__, and its
        # __cinit__ needs an argument, so the pickle module cannot rebuild it on the pinned tree.
        # The property speaks of state save/restore, not of the pickle protocol: not judged.
        pass
    if str(g) != "/".join(map(str, alleles)):
        viols.append(_v("gt:str", f"str({alleles}) = {g}"))
    return viols, g


def run_gt_block(inst):
    """inst = ("pairs", p1, n1, p2, n2): all genotypes of (ploidy p1, n1 alleles) against all of
    (p2, n2): ==, !=, <, hash.   ("enum", p, n): index enumeration without gaps via
    PhredGenotypeLikelihoods.genotypes().   ("slice", p, vals): all multisets over the value set."""
    from whatshap.core import Genotype, PhredGenotypeLikelihoods

    kind = inst[0]
    viols = []
    n = 0
    nontriv = 0
    if kind == "enum":
        _, p, na = inst
        want = list(vcf_order(p, na))
        gl = PhredGenotypeLikelihoods([0.0] * len(want), p, na)
        got = gl.genotypes()
        if len(got) != len(want) or len(gl) != len(want):
            viols.append(_v("gt:enum-count", f"ploidy {p}, {na} alleles: {len(got)} genotypes, expected {len(want)}"))
        for i, (g, w) in enumerate(zip(got, want)):
            n += 1
            if tuple(sorted(g.as_vector())) != w or g.get_index() != i:
                viols.append(_v("gt:enum", f"ploidy {p}, {na} alleles: genotype #{i} is {g} (index {g.get_index()}), expected {w}"))
                break
        for w in want:
            vs, _g = check_genotype(w)
            viols.extend(vs)
            nontriv += len(set(w)) > 1
        return Result(n=n, nontrivial=nontriv, violations=viols[:5], outcome=("enum", len(want)))
    if kind == "pairs":
        _, p1, n1, p2, n2 = inst
        A = [(w, Genotype(list(w))) for w in vcf_order(p1, n1)]
        B = [(w, Genotype(list(w))) for w in vcf_order(p2, n2)]
        for i, (w1, g1) in enumerate(A):
            for j, (w2, g2) in enumerate(B):
                n += 1
                same = p1 == p2 and w1 == w2
                if (g1 == g2) != same or (g1 != g2) != (not same):
                    viols.append(_v("gt:eq", f"{w1} == {w2} gives {g1 == g2}, != gives {g1 != g2}"))
                if same and hash(g1) != hash(g2):
                    viols.append(_v("gt:hash", f"equal genotypes {w1} hash differently"))
                if p1 == p2:
                    nontriv += 1
                    if (g1 < g2) != (i < j):
                        viols.append(_v("gt:lt", f"{w1} < {w2} gives {g1 < g2}, indices {i}, {j}"))
            if len(viols) > 5:
                break
        return Result(n=n, nontrivial=nontriv, violations=viols[:5], outcome=("pairs", p1 == p2))
    if kind == "slice":
        _, p, vals = inst
        for w in itertools.combinations_with_replacement(vals, p):
            n += 1
            nontriv += len(set(w)) > 1
            vs, _g = check_genotype(w)
            viols.extend(vs)
            if len(viols) > 5:
                break
        return Result(n=n, nontrivial=nontriv, violations=viols[:5], outcome=("slice", p))
    if kind == "hist":
        # every history of observations and state restores on ONE object, against the plain model "the object is
        # the genotype last restored into it"; observers must not change what later observers report
        _, init, depth = inst
        T = [(0, 0), (0, 1), (1, 1), (0, 2), (1, 2), (0, 0, 1), (0, 1, 2), (1, 1, 1)]
        ops = ["I", "H", "G"] + [("S", t) for t in T if t != T[init]] + ["C"]
        for seq in itertools.product(ops, repeat=depth):
            if not any(isinstance(o, tuple) for o in seq):
                continue
            g = Genotype(list(T[init]))
            model = T[init]
            n += 1
            for o in seq:
                if o == "I":
                    g.get_index()
                elif o == "H":
                    hash(g)
                elif o == "G":
                    g.__getstate__()
                elif o == "C":
                    g = copy.deepcopy(g)
                else:
                    g.__setstate__((closed_index(o[1]), len(o[1])))
                    model = o[1]
            nontriv += 1
            fresh = Genotype(list(model))
            want = closed_index(model)
            got = (g.get_index(), tuple(g.__getstate__()), tuple(sorted(g.as_vector())), hash(g) == hash(fresh), g == fresh, str(g))
            exp = (want, (want, len(model)), model, True, True, "/".join(map(str, model)))
            if got != exp:
                viols.append(_v("gt:history", f"after {[T[init]] + list(seq)} the object reports (index, state, alleles, hash equal, ==, str) = {got}, the genotype restored last gives {exp}"))
                if len(viols) > 3:
                    break
        return Result(n=n, nontrivial=nontriv, violations=viols[:3], outcome=("hist", depth))
    if kind == "limits":
        # beyond the supported limits the constructor must refuse, not wrap around
        for bad in ([0] * 15, [0, 16], [16], [0] * 16, [17, 3]):
            n += 1
            try:
                g = Genotype(bad)
                viols.append(_v("gt:limit", f"Genotype({bad}) accepted: {g}"))
            except Exception:
                pass
        g = Genotype([])
        n += 1
        if not g.is_none() or g.is_homozygous() or g.get_ploidy() != 0 or str(g) != ".":
            viols.append(_v("gt:none", f"empty genotype: is_none={g.is_none()} str={g}"))
        return Result(n=n, nontrivial=n, violations=viols, outcome="limits")
    raise ValueError(inst)


def gt_space(tier):
    def gen():
        yield ("limits",)
        for init in range(8):
            for depth in (1, 2, 3, 4) + ((5,) if tier == "thorough" else ()):
                yield ("hist", init, depth)
        for p in range(1, 7):
            yield ("enum", p, 6)
        for p1 in range(1, 7):
            for p2 in range(1, 7):
                yield ("pairs", p1, 6, p2, 6)
        if tier == "thorough":
            for p in range(1, 9):
                for na in (7, 8):
                    yield ("enum", p, na)
            for p in range(7, 15):
                yield ("enum", p, 3)
            # complete slices up to the hard limits: every ploidy <= 14, every value set of <= 3
            # allele values out of 0..15, every multiplicity combination
            for p in range(1, 15):
                for k in (1, 2, 3):
                    for vals in itertools.combinations(range(16), k):
                        yield ("slice", p, vals)
        else:
            for p in (7, 10, 14):
                for vals in ((0, 15), (0, 1, 15), (7, 8, 9), (13, 14, 15), (15,), (0, 1, 2)):
                    yield ("slice", p, vals)

    return gen


# ---------------------------------------------------------------- edit distance part
def strings(alphabet, maxlen):
    for n in range(maxlen + 1):
        for t in itertools.product(alphabet, repeat=n):
            yield "".join(t)


def run_ed_block(inst):
    """inst = (alphabet, maxlen, s, maxband): s against every t, every band, str and bytes."""
    from whatshap.align import edit_distance

    alphabet, maxlen, s, maxband = inst
    viols = []
    n = nontriv = 0
    outcomes = set()
    sb = s.encode()
    for t in strings(alphabet, maxlen):
        d = levenshtein(s, t)
        tb = t.encode()
        nontriv += 1 if (d > 0 and s and t and s[0] != t[0] and s[-1] != t[-1]) else 0
        # the function must be pure: call it in different orders for different argument pairs
        # (a result cached from a narrow band must not leak into a later, wider or unbanded call)
        for a, b, kind in ((s, t, "str"), (sb, tb, "bytes"), (s, tb, "str-bytes"), (sb, t, "bytes-str")):
            if kind in ("str-bytes", "bytes-str"):
                # each argument may be str or bytes on its own
                bands = [0, 1, -1] if kind == "str-bytes" else [-1, maxband, 0]
                for band in bands:
                    n += 1
                    got = edit_distance(a, b, band)
                    if (band == -1 or d <= band) and got != d:
                        viols.append(_v("ed:exact", f"edit_distance({a!r},{b!r},{band}) = {got}, Levenshtein = {d}"))
                    elif band != -1 and d > band and not got > band:
                        viols.append(_v("ed:band", f"edit_distance({a!r},{b!r},{band}) = {got} but true distance {d} > band"))
                continue
            if kind == "str":
                bands = list(range(-1, maxband + 1)) if s <= t else list(range(0, maxband + 1)) + [-1]
            else:
                bands = list(range(maxband, -1, -1)) + [-1] if s <= t else [0, -1] + list(range(1, maxband + 1))
            # band widths far beyond the string lengths, up to the largest value the parameter accepts
            bands = bands + ([1000, 2**31 - 2, 2**31 - 1] if kind == "str" else [2**31 - 1, 2**30])
            for band in bands:
                n += 1
                got = edit_distance(a, b, band) if band != -1 or kind == "bytes" else edit_distance(a, b)
                if band == -1 or d <= band:
                    if got != d:
                        viols.append(_v("ed:exact", f"edit_distance({a!r},{b!r},{band}) = {got}, Levenshtein = {d}"))
                else:
                    if not got > band:
                        viols.append(_v("ed:band", f"edit_distance({a!r},{b!r},{band}) = {got} but true distance {d} > band"))
            outcomes.add((d, band if band < d else -2))
        if len(viols) > 5:
            break
    return Result(n=n, nontrivial=nontriv, violations=viols[:5], outcomes=outcomes)


def ed_space(tier):
    def gen():
        if tier == "thorough":
            for s in strings("AC", 8):
                yield ("AC", 8, s, 9)
            for s in strings("ACG", 5):
                yield ("ACG", 5, s, 6)
        else:
            for s in strings("AC", 6):
                yield ("AC", 6, s, 7)
            for s in strings("ACG", 3):
                yield ("ACG", 3, s, 4)
        # an alphabet with the NUL character (C string functions stop there)
        for s in strings("A\x00", 4):
            yield ("A\x00", 4, s, 5)

    return gen


def run(rep, tier, seed, only=None):
    selftest()
    tot_eval = tot_nt = 0
    samples = []
    outcomes = 0
    per = {}
    for name, space, fn in (("genotype", gt_space(tier), run_gt_block), ("edit_distance", ed_space(tier), run_ed_block)):
        if only and name not in only:
            continue
        st = par.explore(space, fn, label=f"C19/{name}")
        rep.add_violations(st.violations)
        rep.add_crashes(st.crashes, name)
        tot_eval += st.evaluations
        tot_nt += st.nontrivial
        outcomes += len(st.outcomes)
        samples += [{"space": name, "block": s} for s in st.samples[:3]]
        per[name] = {"evaluations": st.evaluations, "nontrivial": st.nontrivial, "distinct_outcomes": len(st.outcomes)}
    rep.coverage.update(
        evaluations=tot_eval,
        distinct_nontrivial=tot_nt,
        rule="genotype: every allele multiset of the stated (ploidy, allele) ranges, every ordered pair of them for ==/!=/</hash; "
        "non-trivial = heterozygous genotype / same-ploidy pair. edit distance: every ordered pair of strings over the alphabet up "
        "to the length bound x every band x str/bytes; non-trivial = pair with distance > 0 that survives prefix and suffix trimming",
        samples=samples,
        distinct_outcomes=outcomes,
        per_space=per,
        exhaustive=True,
    )
    rep.assumptions += [
        "ordering (<) is judged for genotypes of equal ploidy only (the index is defined per ploidy)",
        "supported limits: ploidy <= 14, allele values <= 15 (the constructor rejects more)",
    ]


def replay(v):
    inst = v["instance"]
    inst = tuple(tuple(x) if isinstance(x, list) else x for x in inst)
    if inst[0] in ("enum", "pairs", "slice", "limits"):
        return run_gt_block(inst).violations
    return run_ed_block(inst).violations
