"""C09  PS and HP encodings are equivalent, round-trip, and never mix old and new phase.

Explicit-state BFS over histories of {phase --tag=PS, phase --tag=HP, unphase, phase with an
earlier state as the only phase input} applied to a variant file; every transition is an
in-process run of the real command on scratch files.  Checked on every transition: the decoded
output equals what the writer was given (trace hook), whatshap's own reader and the independent
text decoder agree, both tags decode to the same phasing, every phase statement stems from the
new run, re-phasing after unphase gives the same statements, and a phased VCF used as the only
phase input reproduces its phase sets.
"""
import hashlib
import itertools
import os

from mc import par, phaseworld as pw, synth
from mc.par import Result

LEVEL = "model_checking"

READ_DESIGNS = {
    "one-block": lambda k: [tuple(range(k))],
    "two-blocks": lambda k: [tuple(range(0, 2)), tuple(range(2, k))],
    "interleaved": lambda k: [(0, 2), (1, 3)] + ([(0, 4)] if k > 4 else []),
    "block+singleton": lambda k: [tuple(range(0, k - 1))],
    # no read covers two variants: the target has reads but none is phase-informative
    "singletons": lambda k: [(i,) for i in range(k)],
}


def segments(sub):
    segs, start, prev = [], sub[0], sub[0]
    for x in sub[1:]:
        if x != prev + 1:
            segs.append((start, prev))
            start = x
        prev = x
    segs.append((start, prev))
    return segs


def base_scenarios(tier):
    T = tier == "thorough"
    seed = int(os.environ.get("VERIF_SEED", "0")) + 91
    for k in (3, 4, 5) + ((6,) if T else ()):
        for design, fn in READ_DESIGNS.items():
            if design == "interleaved" and k < 4:
                continue
            hps = [p for p in itertools.product((0, 1), repeat=k) if p[0] == 0][:: (1 if (T or k <= 4) else 3)]
            if design == "singletons":
                hps = hps[:2] if not T else hps[:4]
            for hp in hps:
                if design == "one-block" and k <= 4:
                    # all reads belong to the OTHER sample: the target is processed without any read of its own
                    for pre in ("none", "foreignPS", "foreignHP"):
                        yield {"k": k, "design": design, "hp": list(hp), "nsamp": 2, "pre": pre, "seed": seed, "reads_for": "S2"}
                if design in ("one-block", "two-blocks") and k <= 4:
                    # the VCF claims a homozygous genotype at variant 1 although the reads show both alleles; every
                    # phasing operation of the history runs with --distrust-genotypes (the genotype is changed back)
                    for cgt in ("0/0", "1/1"):
                        yield {"k": k, "design": design, "hp": list(hp), "nsamp": 1, "pre": "none", "seed": seed, "distrust": True, "contradict": cgt}
                for nsamp in (1, 2):
                    for pre in ("none", "gt10", "foreignPS", "foreignHP"):
                        if not T and nsamp == 2 and pre in ("gt10",) and k == 5:
                            continue
                        yield {"k": k, "design": design, "hp": list(hp), "nsamp": nsamp, "pre": pre, "seed": seed}
                        if k == 4 and nsamp == 1 and pre in ("none", "foreignPS"):
                            # last variant is an insertion; adds the operations phase --only-snvs (both tags)
                            yield {"k": k, "design": design, "hp": list(hp), "nsamp": nsamp, "pre": pre, "seed": seed, "indel": True}


def build_base(sc, d):
    k = sc["k"]
    seed = sc["seed"]
    # records: k het SNVs, one homozygous record after the first SNV, one multi-ALT record at the end
    pos = [60 + 40 * i for i in range(k)]
    length = 60 + 40 * k + 100
    seq = synth.make_reference(seed, length)
    samples = ["S1"] + (["S2"] if sc["nsamp"] == 2 else [])
    vs = [synth.make_variant(seq, p, "INS" if (sc.get("indel") and i == k - 1) else "SNV", 2 if (sc.get("indel") and i == k - 1) else 1) for i, p in enumerate(pos)]
    haps = [[a, 1 - a] for a in sc["hp"]]
    vcf = synth.VcfText(samples, contigs=[("chrA", length)], formats=["GT", "PS", "HP"] if sc["pre"].startswith("foreign") or sc["nsamp"] == 2 else ["GT"])
    pre = sc["pre"]
    recs = []
    for i, v in enumerate(vs):
        call = {"GT": "0/1"}
        if pre == "gt10" and i == 1:
            call = {"GT": "1/0"}
        if sc.get("contradict") and i == 1:
            call = {"GT": sc["contradict"]}
        if pre == "foreignPS":
            # an old phasing that the reads do not support: one set over everything, wrong orientation at variant 1
            a = haps[i][0] if i != 1 else haps[i][1]
            call = {"GT": f"{a}|{1 - a}", "PS": "999"}
        if pre == "foreignHP":
            a = haps[i][0] if i != 1 else haps[i][1]
            call = {"GT": "0/1", "HP": f"999-{a + 1},999-{2 - a}"}
        calls = [call]
        if len(samples) == 2:
            calls.append({"GT": "0/1"})
        recs.append((v.pos, v.ref, v.alts, calls))
        if i == 0:
            hp_ = pos[0] + 20
            b = seq[hp_]
            recs.append((hp_, b, [synth.other_base(b)], [{"GT": "1/1"}] + ([{"GT": "0/1"}] if len(samples) == 2 else [])))
    mp = pos[-1] + 30
    b = seq[mp]
    mcall = {"GT": "1/2"}
    if pre == "foreignPS":
        mcall = {"GT": "1|2", "PS": "999"}  # a phased multi-allelic call of another phaser
    elif pre == "foreignHP":
        mcall = {"GT": "1/2", "HP": "999-1,999-2"}
    recs.append((mp, b, [synth.other_base(b), synth.other_base(b, 2)], [mcall] + ([{"GT": "0/1"}] if len(samples) == 2 else [])))
    for p, ref, alts, calls in recs:
        fmt = ["GT"] + (["PS"] if any("PS" in c for c in calls) else []) + (["HP"] if any("HP" in c for c in calls) else [])
        vcf.add("chrA", p, ref, alts, calls, fmt=fmt)
    vcf_path = vcf.write(os.path.join(d, "base.vcf"))
    fasta = synth.write_fasta(os.path.join(d, "ref.fa"), [("chrA", seq)])
    alns = []
    n = 0
    for sub in READ_DESIGNS[sc["design"]](k):
        for h in (0, 1):
            n += 1
            q = ""
            cig = []
            prev_end = None
            start0 = None
            for a_, b_ in segments(sub):
                s, e = pos[a_] - 8, pos[b_] + 9
                if start0 is None:
                    start0 = s
                qq, cc = synth.hap_read(seq, vs, [haps[i][h] for i in range(k)], s, e)
                if prev_end is not None:
                    cig.append((3, s - prev_end))
                q += qq
                cig += cc
                prev_end = e
            alns.append({"name": f"r{n}", "chrom": "chrA", "start": start0, "cigar": cig, "seq": q, "rg": "rg_" + sc.get("reads_for", "S1")})
            for rep in range(2 if sc.get("distrust") else 0):
                # more evidence per haplotype, so that a contradicted genotype is changed back
                alns.append(dict(alns[-1], name=f"r{n}c{rep}"))
    bam = os.path.join(d, "reads.bam")
    synth.write_bam(bam, [("chrA", length)], alns, read_groups=[{"ID": "rg_S1", "SM": "S1"}, {"ID": "rg_S2", "SM": "S2"}])
    return {"vcf": vcf_path, "fasta": fasta, "bam": bam, "pos": pos, "haps": haps}


def statements(call):
    """every phase statement a call makes: [("GT", block, alleles)] and/or [("HP", block, alleles)]"""
    out = []
    gt, phased = synth.gt_parse(call.get("GT"))
    if phased and gt is not None and None not in gt and len(set(gt)) > 1:
        ps = call.get("PS")
        out.append(("GT", int(ps) if ps not in (None, ".", "") else 0, tuple(gt)))
    hp = call.get("HP")
    if hp not in (None, ".", "") and hp.strip("\x00") != "":
        fields = [x.split("-") for x in hp.split(",")]
        if any(len(f) != 2 for f in fields):
            return out + [("HP-malformed", hp, None)]
        order = [int(f[1]) - 1 for f in fields]
        if gt is not None and len(gt) == len(order) and None not in gt:
            al = [None] * len(order)
            for allele, h in zip(gt, order):
                al[h] = allele
            out.append(("HP", int(fields[0][0]), tuple(al)))
        else:
            out.append(("HP", int(fields[0][0]), None))
    return out


def whatshap_decode(path, sample):
    """phases through whatshap's own reader: {pos: (block, alleles)}; raises on MixedPhasingError"""
    from whatshap.vcf import VcfReader

    out = {}
    with VcfReader(path, phases=True) as r:
        for table in r:
            for v, ph in zip(table.variants, table.phases_of(sample)):
                if ph is not None:
                    out[v.position + 1] = (ph.block_id, tuple(ph.phase))
    return out


def restrict_phase(path, out, keep_blocks, statements_fn):
    """copy of a phased VCF in which sample S1 keeps only the phase sets in keep_blocks (the rest is unphased)"""
    p = synth.parse_vcf(path)
    si = p["samples"].index("S1")
    lines = list(p["header"]) + ["\t".join(["#CHROM", "POS", "ID", "REF", "ALT", "QUAL", "FILTER", "INFO", "FORMAT"] + p["samples"])]
    for rec in p["records"]:
        t = rec["line"].split("\t")
        call = dict(rec["calls"][si])
        sts = statements_fn(call)
        if sts and not all(b in keep_blocks for _, b, _ in sts):
            gt, _ = synth.gt_parse(call.get("GT"))
            call["GT"] = "/".join(map(str, sorted(gt)))
            for k in ("PS", "HP"):
                if k in call:
                    call[k] = "."
            t[9 + si] = ":".join(call.get(k, ".") or "." for k in rec["format"])
        lines.append("\t".join(t))
    with open(out, "w") as f:
        f.write("\n".join(lines) + "\n")
    return out


def strip_ps(path, out, statements_fn):
    """copy of a phased VCF in which the phase statements of S1 are written as `a|b` genotypes without a PS field
    (FORMAT GT only; an HP-encoded state is re-encoded)"""
    p = synth.parse_vcf(path)
    si = p["samples"].index("S1")
    lines = [l for l in p["header"] if not l.startswith("##FORMAT=<ID=PS") and not l.startswith("##FORMAT=<ID=HP")]
    lines.append("\t".join(["#CHROM", "POS", "ID", "REF", "ALT", "QUAL", "FILTER", "INFO", "FORMAT"] + p["samples"]))
    for rec in p["records"]:
        t = rec["line"].split("\t")
        cols = []
        for sj in range(len(p["samples"])):
            call = rec["calls"][sj]
            gt = call.get("GT", ".")
            if sj == si:
                sts = statements_fn(call)
                if sts and sts[0][2] is not None:
                    gt = "|".join(map(str, sts[0][2]))
                else:
                    g, _ = synth.gt_parse(gt)
                    gt = "/".join("." if a is None else str(a) for a in g) if g else gt
            else:
                g, _ = synth.gt_parse(gt)
                gt = "/".join("." if a is None else str(a) for a in g) if g else gt
            cols.append(gt)
        t[8] = "GT"
        t[9:] = cols
        lines.append("\t".join(t))
    with open(out, "w") as f:
        f.write("\n".join(lines) + "\n")
    return out


def run_op(ctx, d, state_path, op, tag_i):
    """execute one operation; returns (output path or None, traces, error)"""
    out = os.path.join(d, f"s{tag_i}.vcf")
    if op == "U":
        from whatshap.cli.unphase import run_unphase

        try:
            run_unphase(state_path, out)
        except Exception as e:  # noqa
            return None, [], f"{type(e).__name__}: {e}"
        return out, [], None
    tag = "PS" if op[0] in ("P",) or op.endswith("PS") else "HP"
    paths = {"fasta": ctx["fasta"], "vcf": state_path, "bam": ctx["bam"]}
    kw = dict(tag=tag, samples=["S1"])
    if op in ("Ps", "Hs"):
        kw["only_snvs"] = True
    if ctx.get("distrust"):
        kw["distrust_genotypes"] = True
        kw["include_homozygous"] = True
    if op.startswith("V0"):
        kw["phase_inputs"] = [ctx["vin0"]]
    elif op.startswith("V2"):
        kw["phase_inputs"] = list(ctx["vin2"])
    elif op.startswith("V"):
        kw["phase_inputs"] = [ctx["vin"]]
    parsed, traces, err = pw.run_phase(paths, d, out_name=f"s{tag_i}.vcf", **kw)
    if err:
        return None, traces, err
    return out, traces, None


_scratch = None


def judge(sc):
    global _scratch
    if _scratch is None:
        _scratch = synth.Scratch("c09")
    d = os.path.join(_scratch.path, f"p{os.getpid()}")
    os.makedirs(d, exist_ok=True)
    for f in os.listdir(d):
        os.unlink(os.path.join(d, f))
    ctx = build_base(sc, d)
    ctx["distrust"] = bool(sc.get("distrust"))
    viols = []
    trans = 0
    counter = [0]

    def V(clause, detail, hist):
        sig = "c09:" + clause
        return {"clause": clause, "signature": sig, "detail": detail + f" [history {hist}; scenario {sc}]", "instance": {"scenario": sc, "history": list(hist)}}

    def records_key(path):
        txt = open(path).read()
        body = [l for l in txt.splitlines() if not l.startswith("##") or l.startswith("##FORMAT=<ID=PS") or l.startswith("##FORMAT=<ID=HP")]
        return hashlib.blake2b("\n".join(body).encode(), digest_size=8).digest()

    def target_statements(path):
        p = synth.parse_vcf(path)
        si = p["samples"].index("S1")
        return {rec["pos"]: statements(rec["calls"][si]) for rec in p["records"]}, p

    def apply(path, op, hist):
        nonlocal trans
        counter[0] += 1
        trans += 1
        return run_op(ctx, d, path, op, counter[0])

    def check_phase_output(x_path, y_path, traces, tag, hist):
        """I2 + 'stems from the new run' + decoder agreement"""
        st, parsed = target_statements(y_path)
        exp = {}
        inp = synth.parse_vcf(x_path if not sc.get("distrust") else y_path)  # distrusted genotypes: heterozygous is what the output says
        si = inp["samples"].index("S1")
        het = {}
        for rec in inp["records"]:
            gt, _ = synth.gt_parse(rec["calls"][si].get("GT"))
            het[rec["pos"]] = gt is not None and None not in gt and len(set(gt)) > 1 and len(rec["alt"]) == 1
        for t in traces:
            if "S1" not in t["family"]:
                continue
            comp = {p: c for p, c in t["components"]}
            sr = t["superreads"][t["family"].index("S1")]
            for (p0, a0, _q0), (p1, a1, _q1) in zip(sr[0], sr[1]):
                if a0 in (0, 1) and a1 in (0, 1) and a0 != a1 and p0 in comp and het.get(p0 + 1):
                    exp[p0 + 1] = (comp[p0] + 1, (a0, a1))
        for pos, sts in st.items():
            want = exp.get(pos)
            for kind, block, alleles in sts:
                if want is None:
                    viols.append(V("stale-phase", f"position {pos}: output carries the {kind} phase statement ({block}, {alleles}) although the new run did not phase this variant", hist))
                elif (block, alleles) != want:
                    viols.append(V("old-or-wrong-phase", f"position {pos}: {kind} phase statement ({block}, {alleles}) differs from what the run computed {want}", hist))
            if want is not None and not sts:
                viols.append(V("phase-not-written", f"position {pos}: the run computed {want} but the output has no phase statement", hist))
            if want is not None and sts and not any(k == ("GT" if tag == "PS" else "HP") for k, _, _ in sts):
                viols.append(V("wrong-encoding", f"position {pos}: phase written as {[k for k, _, _ in sts]} under --tag={tag}", hist))
        # whatshap's own reader must return exactly the phase that was written
        try:
            own = whatshap_decode(y_path, "S1")
            ind = {pos: (sts[0][1], sts[0][2]) for pos, sts in st.items() if sts and rec_is_biallelic(parsed, pos)}
            if {p: v for p, v in own.items()} != {p: v for p, v in ind.items() if p in own or True} and own != ind:
                viols.append(V("decoder-disagreement", f"VcfReader decodes {own}, the text decoder {ind}", hist))
        except Exception as e:  # noqa
            viols.append(V("own-reader-fails", f"whatshap cannot read back its own output: {type(e).__name__}: {e}", hist))
        return exp

    def rec_is_biallelic(parsed, pos):
        for rec in parsed["records"]:
            if rec["pos"] == pos:
                return len(rec["alt"]) == 1
        return False

    base = ctx["vcf"]
    seen = {records_key(base): ()}
    frontier = [(base, ())]
    max_depth = sc.get("depth", 3)
    nstates_phased = 0
    for depth in range(max_depth):
        nxt = []
        for path, hist in frontier:
            results = {}
            for op in ("P", "H", "U") + (("Ps", "Hs") if sc.get("indel") else ()):
                y, traces, err = apply(path, op, hist)
                h2 = tuple(hist) + (op,)
                if err:
                    viols.append(V("operation-fails", f"{op} failed: {err}", h2))
                    continue
                # keep a stable copy
                keep = os.path.join(d, f"keep_{len(seen)}_{op}.vcf")
                os.replace(y, keep)
                y = keep
                if op in ("P", "H", "Ps", "Hs"):
                    results[op] = (y, check_phase_output(path, y, traces, "PS" if op[0] == "P" else "HP", h2))
                kkey = records_key(y)
                if kkey not in seen:
                    seen[kkey] = h2
                    nxt.append((y, h2))
            # I1: both tags decode to the same phasing
            if "P" in results and "H" in results:
                a, _ = target_statements(results["P"][0])
                b, _ = target_statements(results["H"][0])
                da = {p: (s[0][1], s[0][2]) for p, s in a.items() if s}
                db = {p: (s[0][1], s[0][2]) for p, s in b.items() if s}
                if da != db:
                    viols.append(V("ps-hp-differ", f"--tag=PS decodes to {da}, --tag=HP to {db}", hist))
                if len(da) >= 2:
                    nstates_phased += 1
            # I3: phase(x) == phase(unphase(x)) in the target's phase statements
            u, _, erru = apply(path, "U", hist)
            if not erru:
                ukeep = os.path.join(d, "unphased_tmp.vcf")
                os.replace(u, ukeep)
                for op in ("P", "H"):
                    if op not in results:
                        continue
                    y2, tr2, err2 = apply(ukeep, op, tuple(hist) + ("U", op))
                    if err2:
                        continue
                    a, _ = target_statements(results[op][0])
                    b, _ = target_statements(y2)
                    if a != b:
                        diff = {p: (a.get(p), b.get(p)) for p in set(a) | set(b) if a.get(p) != b.get(p)}
                        viols.append(V("rephase-differs", f"{op}(x) and {op}(unphase(x)) differ in the phase statements of the target: {diff}", tuple(hist) + (op,)))
                # I4: a phased VCF as the only phase input reproduces its phase sets
                stx, px = target_statements(path)
                blocks = {}
                for pos, sts in stx.items():
                    if not rec_is_biallelic(px, pos):
                        continue  # `phase` does not phase multi-allelic records
                    if sts and sts[0][2] is not None and len(sts) == 1:
                        blocks.setdefault(sts[0][1], []).append((pos, sts[0][2]))
                blocks = {b: m for b, m in blocks.items() if len(m) >= 2}
                if blocks:
                    ctx["vin"] = path
                    ops3 = ["VPS", "VHP"]
                    if len(blocks) >= 2:
                        # the same phasing handed over as two files (one phase set in the first, the rest in the second)
                        first = min(blocks)
                        ctx["vin2"] = [
                            restrict_phase(path, os.path.join(d, "vin_a.vcf"), {first}, statements),
                            restrict_phase(path, os.path.join(d, "vin_b.vcf"), set(blocks) - {first}, statements),
                        ]
                        ops3 += ["V2PS"]
                    if len(blocks) == 1 and all((not sts) or (len(sts) == 1 and sts[0][1] in blocks) for sts in stx.values()):
                        # the single phase set handed over the way chromosome-wide phasers write it: `a|b` without any
                        # PS field (read as one set by whatshap)
                        ctx["vin0"] = strip_ps(path, os.path.join(d, "vin_nops.vcf"), statements)
                        ops3 += ["V0PS", "V0HP"]
                    for op in ops3:
                        y3, tr3, err3 = apply(ukeep, op, tuple(hist) + ("U", op))
                        if err3:
                            viols.append(V("operation-fails", f"phasing from a phased VCF failed: {err3}", tuple(hist) + ("U", op)))
                            continue
                        sty, _ = target_statements(y3)
                        for b, members in blocks.items():
                            got = [sty.get(pos) for pos, _ in members]
                            if any(not g for g in got):
                                viols.append(V("vcf-input-not-reproduced", f"phase set {b} of the input phasing {members} is not reproduced: {got}", tuple(hist) + ("U", op)))
                                continue
                            names = {g[0][1] for g in got}
                            flips = {g[0][2] == al for g, (_, al) in zip(got, members)}
                            revs = {g[0][2] == al[::-1] for g, (_, al) in zip(got, members)}
                            okflip = flips == {True} or revs == {True}
                            if len(names) != 1 or not okflip or names != {min(p for p, _ in members)}:
                                viols.append(V("vcf-input-not-reproduced", f"phase set {b} of the input phasing {members} comes back as {got}", tuple(hist) + ("U", op)))
        frontier = nxt
        if not frontier:
            break
    return viols, len(seen), trans, nstates_phased


def run_one(sc):
    viols, nstates, trans, nph = judge(sc)
    # de-duplicate by clause
    seenc, out = set(), []
    for v in viols:
        if v["clause"] not in seenc:
            seenc.add(v["clause"])
            out.append(v)
    return Result(nontrivial=nph > 0, violations=out[:6], extra={"states": nstates, "transitions": trans}, outcome=(sc["design"], sc["pre"], nstates))


def run(rep, tier, seed, only=None):
    st = par.explore(lambda: base_scenarios(tier), run_one, label="C09")
    rep.add_violations(st.violations)
    rep.add_crashes(st.crashes, "C09")
    rep.coverage.update(
        states=st.extra.get("states", 0),
        transitions=st.extra.get("transitions", 0),
        traces_validated_against_impl=st.extra.get("transitions", 0),
        samples=st.samples[:4],
        base_scenarios=st.evaluations,
        scenarios_with_two_or_more_phased_variants=st.nontrivial,
        max_depth=3,
        exhaustive=True,
        rule="BFS to depth 3 per base scenario over {phase PS, phase HP, unphase}; on every state additionally phase(unphase(x)) for both tags and "
        "phase with x as the only phase input; states = VCF record texts deduplicated by hash (counted per scenario)",
    )
    rep.assumptions += ["error-free reads from fixed haplotypes; target sample S1", "a PS number left on an unphased genotype is not a phase statement; an HP value is one"]


def replay(v):
    return judge(v["instance"]["scenario"])[0]
