"""C02  Read-based phasing of error-free reads reproduces the true haplotypes.

Every world of a bounded alphabet (variant type vectors x true haplotype patterns x read sets x
margins x options) is materialised as FASTA + VCF + BAM, `whatshap phase` (default exact
algorithm) is run in-process on it, and every phase set of the output is compared with the
haplotypes the reads were copied from.
"""
import itertools
import os

from mc import par, phaseworld as pw, synth
from mc.par import Result

LEVEL = "exploration"

SPACING = 40


def type_vectors(k, tier):
    if tier == "thorough":
        T = [("SNV", 1), ("MNP", 2), ("MNP", 3), ("INS", 1), ("INS", 2), ("INS", 3), ("DEL", 1), ("DEL", 2), ("DEL", 3)]
        if k <= 2:
            return list(itertools.product(T, repeat=k))
        # k >= 3: at most two distinct types per world
        out = []
        for a, b in itertools.combinations_with_replacement(T, 2):
            for vec in itertools.product((a, b), repeat=k):
                if vec not in out:
                    out.append(vec)
        return out
    T = [("SNV", 1), ("MNP", 2), ("INS", 2), ("DEL", 2)]
    if k <= 2:
        T2 = T + [("INS", 1), ("DEL", 1), ("DEL", 3), ("INS", 3)]
        return list(itertools.product(T2, repeat=k))
    return list(itertools.product(T, repeat=k))


def read_kinds(k):
    """(segments as (first, last) variant index pairs, link)"""
    kinds = []
    for i in range(k):
        for j in range(i + 1, k):
            kinds.append((((i, j),), "N"))
    if k >= 3:
        kinds.append((((0, 0), (k - 1, k - 1)), "pair"))
        kinds.append((((0, 0), (k - 1, k - 1)), "N"))
    return kinds


def worlds(tier):
    """yields (world dict, options dict)"""
    T = tier == "thorough"
    wid = 0
    for k in (2, 3) + ((4,) if T else ()):
        kinds = read_kinds(k)
        hk = [(kind, h) for kind in kinds for h in (0, 1)]
        maxset = 3 if (k <= 3) else 2
        read_sets = []
        for n in range(1, maxset + 1):
            read_sets += list(itertools.combinations(hk, n))
        if k == 4 and not T:
            continue
        hap_patterns = [p for p in itertools.product((0, 1), repeat=k) if p[0] == 0]
        for tv in type_vectors(k, tier):
            snv_only = all(t == "SNV" for t, _ in tv)
            mixed = len(set(tv)) > 1
            for hp in hap_patterns:
                for rs in read_sets:
                    if not T and k == 3 and mixed and len(rs) > 2:
                        continue
                    if T and k == 4 and mixed and len(rs) > 1:
                        continue
                    for margin in ((1, 3, 12) if (T or snv_only or k == 2) else (1, 12)):
                        optsets = [dict(tag="PS")]
                        if snv_only or (k == 2):
                            optsets.append(dict(tag="HP"))
                        if snv_only:
                            optsets.append(dict(tag="PS", reference=False))
                        if mixed and k == 2:
                            optsets.append(dict(tag="PS", only_snvs=True))
                        for opts in optsets:
                            wid += 1
                            yield make_world(wid, tv, [hp], rs, margin, depth=1), opts
                        if margin == 1 and mixed and (k == 2 or (k == 3 and len(rs) == 1)):
                            # a phased input (phased elsewhere, partly wrongly); with --only-snvs the other records
                            # are not re-phased and must not stay in a phase set
                            for opts in (dict(tag="PS", only_snvs=True), dict(tag="HP", only_snvs=True), dict(tag="PS")):
                                wid += 1
                                w = make_world(wid, tv, [hp], rs, margin, depth=1)
                                w["prephased"] = True
                                yield w, opts
                        if margin == 1 and (snv_only or k == 2):
                            # unphased genotypes spelled 1/0 in the input
                            for opts, sp in ((dict(tag="HP"), "mixed"), (dict(tag="PS"), "mixed"), (dict(tag="HP"), "desc")):
                                wid += 1
                                w = make_world(wid, tv, [hp], rs, margin, depth=1)
                                w["gt_spelling"] = sp
                                yield w, opts
    # two samples with different haplotypes, reads from both read groups, --sample subsets
    for tv in [(("SNV", 1), ("SNV", 1), ("SNV", 1)), (("SNV", 1), ("INS", 2), ("DEL", 1)), (("DEL", 2), ("SNV", 1), ("MNP", 2))]:
        k = 3
        kinds = read_kinds(k)
        hk = [(kind, h) for kind in kinds[:3] for h in (0, 1)]
        for hp1 in [(0, 0, 0), (0, 1, 0), (0, 1, 1)]:
            for hp2 in [(0, 0, 1), (0, 1, 0)]:
                for rs1 in itertools.combinations(hk, 2):
                    for rs2 in itertools.combinations(hk[::2] + hk[1::2], 1) if not T else itertools.combinations(hk, 2):
                        for opts in (dict(tag="PS"), dict(tag="HP"), dict(tag="PS", samples=["S2"])):
                            wid += 1
                            yield make_world(wid, tv, [hp1, hp2], rs1, 5, depth=1, reads2=rs2), opts
    # depth above the internal coverage cap of 15 and explicit down-sampling
    for tv in [(("SNV", 1), ("SNV", 1), ("SNV", 1)), (("SNV", 1), ("DEL", 1), ("INS", 1))]:
        k = 3
        kinds = read_kinds(k)
        for hp in [(0, 0, 0), (0, 1, 0), (0, 0, 1), (0, 1, 1)]:
            for design in range(4):
                # all three interval kinds on both haplotypes, staggered, depth 20 / 6
                hk = [(kind, h) for kind in (kinds[:3] if design < 2 else kinds[:2]) for h in (0, 1)]
                for depth, opts in ((20, dict(tag="PS")), (6, dict(tag="PS", max_coverage=2)), (6, dict(tag="HP", max_coverage=3)), (3, dict(tag="PS", max_coverage=1))):
                    wid += 1
                    yield make_world(wid, tv, [hp], hk if design % 2 == 0 else hk[::-1], 4, depth=depth), opts
    # clipped alignments: leading / trailing hard and soft clips of various lengths on every read
    for tv in [(("SNV", 1), ("SNV", 1), ("SNV", 1)), (("INS", 2), ("SNV", 1), ("DEL", 2)), (("MNP", 2), ("DEL", 1), ("SNV", 1))]:
        k = 3
        kinds = read_kinds(k)
        for hp in [(0, 0, 0), (0, 1, 0), (0, 0, 1), (0, 1, 1)]:
            for (ka, ha), (kb, hb) in itertools.product([(kinds[0], 0), (kinds[2], 1)], [(kinds[1], 1), (kinds[2], 0), (kinds[1], 0)]):
                for lead in (("H", 3), ("H", 11), ("H", 25), ("S", 4), ("S", 12), None):
                    for trail in (None, ("H", 9), ("S", 7)):
                        if lead is None and trail is None:
                            continue
                        for margin in (2, 15):
                            wid += 1
                            w = make_world(wid, tv, [hp], [(ka, ha), (kb, hb)], margin, depth=1)
                            for r in w["reads"]:
                                if lead:
                                    r["lead_clip"] = list(lead)
                                if trail:
                                    r["trail_clip"] = list(trail)
                            yield w, dict(tag="PS")
                            if all(t == "SNV" for t, _ in tv) and margin == 15:
                                yield w, dict(tag="PS", reference=False)
    # extended CIGAR (= / X operators) and uneven coverage of the two haplotypes (two reads of one, one of the other)
    for tv in [(("SNV", 1), ("INS", 2), ("SNV", 1)), (("INS", 1), ("SNV", 1), ("DEL", 2)), (("SNV", 1), ("MNP", 2), ("INS", 3))]:
        k = 3
        kinds = read_kinds(k)
        for hp in [(0, 0, 0), (0, 1, 0), (0, 0, 1), (0, 1, 1)]:
            for more in (0, 1):
                for margin in (3, 15):
                    wid += 1
                    hk = [(kind, h) for kind in kinds[:3] for h in (0, 1)] + [(kind, more) for kind in kinds[:3]]
                    w = make_world(wid, tv, [hp], hk, margin, depth=1)
                    for r in w["reads"]:
                        r["style"] = "=X"
                    yield w, dict(tag="PS")
    # a read that ends on the anchor base of an insertion its haplotype carries (it shows nothing of the inserted bases)
    # and is the only link between the first variant and the rest
    for ins_len in (1, 2, 3):
        tv = (("SNV", 1), ("INS", ins_len), ("SNV", 1))
        for hp in [(0, 0, 0), (0, 1, 0), (0, 0, 1), (0, 1, 1)]:
            for h in (0, 1):
                wid += 1
                w = make_world(wid, tv, [hp], [], 6, depth=1)
                w["reads"] = [{"sample": "S1", "chrom": "chrA", "hap": h, "segs": [[0, 0, 6, SPACING - 1 + 1]], "n": 1, "force_ref": [1]}]
                for hh in (0, 1):
                    w["reads"].append({"sample": "S1", "chrom": "chrA", "hap": hh, "segs": [[1, 2, 6, 6]], "n": 1})
                yield w, dict(tag="PS")
    # several alignment files for one sample; read names are unique within a file only
    for tv in [(("SNV", 1),) * 4, (("SNV", 1), ("INS", 1), ("SNV", 1), ("DEL", 1))]:
        k = 4
        for hp in [p for p in itertools.product((0, 1), repeat=k) if p[0] == 0]:
            for design in range(4):
                wid += 1
                # file 1: reads over variants (0,1) and (2,3); file 2: reads over (1,2), (0,1) ... same names r1, r2, ...
                f1 = [((((0, 1),), "N"), 0), ((((2, 3),), "N"), 1), ((((0, 1),), "N"), 1)]
                f2 = [((((2, 3),), "N"), 1 if design % 2 else 0), ((((0, 1),), "N"), 0 if design % 2 else 1), ((((1, 2),), "N"), design // 2), ((((1, 2),), "N"), 1 - design // 2)]
                w = make_world(wid, tv, [hp], f1, 6, depth=1)
                w2 = make_world(wid, tv, [hp], f2, 6, depth=1)
                for r in w2["reads"]:
                    r["bam"] = 1
                w["reads"] += w2["reads"]
                yield w, dict(tag="PS")
                yield w, dict(tag="HP")
    # two chromosomes, one phased per chromosome list
    for hp in [(0, 0, 0), (0, 1, 0), (0, 1, 1), (0, 0, 1)]:
        for opts in (dict(tag="PS"), dict(tag="PS", chromosomes=["chrB"]), dict(tag="HP", chromosomes=["chrA"])):
            wid += 1
            tv = (("SNV", 1), ("INS", 1), ("SNV", 1))
            w = make_world(wid, tv, [hp], [((((0, 2),), "N"), 0), ((((0, 1),), "N"), 1)], 6, depth=1, two_chroms=True)
            yield w, opts


def make_world(wid, tv, haps, rs, margin, depth=1, reads2=None, two_chroms=False):
    k = len(tv)
    base = 60
    vs = [{"pos": base + i * SPACING, "kind": t, "len": l} for i, (t, l) in enumerate(tv)]
    length = base + k * SPACING + 60
    samples = [f"S{i + 1}" for i in range(len(haps))]
    chroms = [{"name": "chrA", "length": length, "variants": vs}]
    if two_chroms:
        chroms.append({"name": "chrB", "length": length, "variants": [dict(v) for v in vs]})
    world = {"seed": int(os.environ.get("VERIF_SEED", "0")) + 7, "chroms": chroms, "samples": samples, "haps": {}, "reads": []}
    for s, hp in zip(samples, haps):
        world["haps"][s] = {c["name"]: [[a, 1 - a] for a in hp] for c in chroms}
    for si, s in enumerate(samples):
        for (segs, link), h in (rs if si == 0 else (reads2 or [])):
            for c in chroms:
                world["reads"].append(
                    {"sample": s, "chrom": c["name"], "hap": h, "segs": [[a, b, margin, margin] for a, b in segs], "link": link, "n": depth}
                )
    return world


def judge(world, opts, scratch):
    paths = pw.materialize(world, scratch)
    if world.get("prephased"):
        # the input already carries a phasing from elsewhere: every heterozygous call spelled 1|0 in one phase set
        # per chromosome (right for some variants, wrong for others)
        pv = synth.parse_vcf(paths["vcf"])
        lines = list(pv["header"]) + ['##FORMAT=<ID=PS,Number=1,Type=Integer,Description="Phase set identifier">', "\t".join(["#CHROM", "POS", "ID", "REF", "ALT", "QUAL", "FILTER", "INFO", "FORMAT"] + pv["samples"])]
        first = {}
        for rec in pv["records"]:
            t = rec["line"].split("\t")
            first.setdefault(rec["chrom"], rec["pos"])
            calls = []
            for c in t[9:]:
                g = c.split(":")[0]
                al = g.split("/")
                if "|" not in g and len(al) == 2 and "." not in al and al[0] != al[1]:
                    calls.append("|".join(sorted(al, reverse=True)) + f":{first[rec['chrom']]}")
                else:
                    calls.append(g + ":.")
            t[8] = "GT:PS"
            lines.append("\t".join(t[:9] + calls))
        with open(paths["vcf"], "w") as f:
            f.write("\n".join(lines) + "\n")
    parsed, traces, err = pw.run_phase(paths, scratch, **opts)
    viols = []
    info = {"phased2": 0, "sets2": 0, "selected_less": 0, "cost_nonzero": 0}
    if err is not None:
        return [_v("error", f"whatshap phase failed: {err}", world, opts)], info
    targets = opts.get("samples") or world["samples"]
    chrom_sel = opts.get("chromosomes")
    for si, s in enumerate(parsed["samples"]):
        sets = pw.phase_sets(parsed, si)
        if s not in targets and sets:
            viols.append(_v("untargeted-phased", f"sample {s} was not selected but is phased", world, opts))
            continue
        for chrom, blocks in sets.items():
            if chrom_sel and chrom not in chrom_sel:
                viols.append(_v("unselected-chromosome-phased", f"{chrom} was not selected but is phased", world, opts))
                continue
            ci = next(i for i, c in enumerate(world["chroms"]) if c["name"] == chrom)
            pos_to_vi = {v.pos + 1: i for i, v in enumerate(paths["variants"][ci])}
            if len(blocks) >= 2:
                info["sets2"] = 1
            for bid, members in blocks.items():
                if len(members) >= 2:
                    info["phased2"] = 1
                orient = set()
                for ri, pos, alleles in members:
                    vi = pos_to_vi[pos]
                    true = tuple(world["haps"][s][chrom][vi])
                    if tuple(alleles) == true:
                        orient.add(0)
                    elif tuple(alleles) == true[::-1]:
                        orient.add(1)
                    else:
                        orient.add(("bad", pos, alleles))
                if len(orient) > 1:
                    viols.append(
                        _v(
                            "haplotypes",
                            f"sample {s} {chrom} phase set {bid}: phased alleles {[(p, a) for _, p, a in members]} do not equal the true "
                            f"haplotypes {world['haps'][s][chrom]} or their exchange",
                            world,
                            opts,
                        )
                    )
    for t in traces:
        if t.get("cost"):
            info["cost_nonzero"] = 1
    return viols, info


def _v(clause, detail, world, opts):
    return {"clause": clause, "signature": "c02:" + clause, "detail": detail, "instance": {"world": world, "opts": opts}}


_scratch = None


def _setup():
    global _scratch
    _scratch = synth.Scratch("c02")


def run_one(inst):
    global _scratch
    if _scratch is None:
        _setup()
    world, opts = inst
    d = _scratch.sub("w")
    viols, info = judge(world, opts, d)
    for f in os.listdir(d):
        os.unlink(os.path.join(d, f))
    return Result(nontrivial=bool(info["phased2"]), violations=viols, extra={k: v for k, v in info.items() if v}, outcome=(info["phased2"], info["sets2"], len(viols) > 0))


def run(rep, tier, seed, only=None):
    import atexit

    def space():
        yield from worlds(tier)

    st = par.explore(space, run_one, label="C02")
    rep.add_violations(st.violations)
    rep.add_crashes(st.crashes, "C02")
    rep.coverage.update(
        evaluations=st.evaluations,
        distinct_nontrivial=st.nontrivial,
        rule="every world of the bounded alphabet (type vector x haplotype pattern x read set x margin x options), each a distinct "
        "(files, options) pair; non-trivial = at least two variants phased into one set",
        samples=[{"world": w, "opts": o} for w, o in st.samples[:3]],
        exhaustive=True,
        worlds_with_two_or_more_sets=st.extra.get("sets2", 0),
        worlds_with_nonzero_solver_cost=st.extra.get("cost_nonzero", 0),
        distinct_outcomes=len(st.outcomes),
    )
    rep.assumptions += [
        "variants at least 40 bp apart (well separated), reference without homopolymer runs > 2 and without tandem repeats at variant sites",
        "in-process run_whatshap with an option vector the argument parser accepts",
    ]


def replay(v):
    i = v["instance"]
    with synth.Scratch("c02r") as s:
        viols, info = judge(i["world"], i["opts"], s.path)
    return viols
