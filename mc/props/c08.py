"""C08  Genotyping reports the exact posterior of its HMM; GT, GL and GQ agree.

(a) whatshap.core.GenotypeDPTable on every instance of a layered space (as C01, reads with
    >= 2 entries) against a plain forward-backward / full enumeration of the documented HMM;
(b) `whatshap genotype` output VCF: GL sums to one, GT is the unique maximum above the
    threshold, GQ is the phred-scaled mass of the other genotypes.
"""
import itertools
import math
import os

from mc import oracle, par, phaseworld as pw, synth
from mc.par import Result
from mc.props import c01

LEVEL = "exploration"

PRIORS = [(1 / 3, 1 / 3, 1 / 3), (0.5, 0.25, 0.25), (0.1, 0.8, 0.1), (0.01, 0.01, 0.98)]
REL_TOL = 1e-9
ABS_TOL = 1e-15


def run_impl(inst):
    from whatshap.core import Genotype, GenotypeDPTable, NumericSampleIds, Pedigree, PhredGenotypeLikelihoods, Read, ReadSet

    n_ind, trios = oracle.PEDS[inst["ped"]]
    C = inst["C"]
    pool = c01.name_pool()
    nsi = NumericSampleIds()
    ids = [nsi[f"ind{i}"] for i in range(n_ind)]
    rs = ReadSet()
    for i, (ind, alleles, weights) in enumerate(inst["reads"]):
        r = Read(pool[i], 50, 0, ids[ind])
        for c in range(C):
            if alleles[c] >= 0:
                r.add_variant((c + 1) * 10, alleles[c], weights[c])
        rs.add(r)
    rs.sort()
    ped = Pedigree(nsi)
    for i in range(n_ind):
        ped.add_individual(f"ind{i}", [Genotype([]) for _ in range(C)], [PhredGenotypeLikelihoods(list(inst["prior"][i][c])) for c in range(C)])
    for f, m, c in trios:
        ped.add_relationship(f"ind{f}", f"ind{m}", f"ind{c}")
    positions = [(c + 1) * 10 for c in range(C)]
    dp = GenotypeDPTable(nsi, rs, list(inst["rc"]), ped, positions)
    return [[list(dp.get_genotype_likelihoods(f"ind{i}", c)) for i in range(n_ind)] for c in range(C)]


def judge(inst):
    got = run_impl(inst)
    want = oracle.c_genotype_posterior(inst, 1)
    n_ind = oracle.PEDS[inst["ped"]][0]
    worst = 0.0
    viols = []
    for c in range(inst["C"]):
        for i in range(n_ind):
            g, w = got[c][i], want[c][i]
            if any(math.isnan(x) for x in g) or abs(sum(g) - 1.0) > 1e-12:
                viols.append(_v("sum", f"column {c} individual {i}: likelihoods {g} do not sum to one", inst))
                continue
            for k in range(3):
                d = abs(g[k] - w[k])
                worst = max(worst, d)
                if d > REL_TOL * abs(w[k]) + ABS_TOL and d > 1e-13:
                    viols.append(_v("posterior", f"column {c} individual {i}: implementation {g}, HMM posterior {w}", inst))
                    break
    return viols, worst, want


def _v(clause, detail, inst):
    return {"clause": clause, "signature": "c08:" + clause, "detail": detail, "instance": {"inst": inst}}


# ------------------------------------------------------------------------------ space
def prior_cols(n_ind, tier):
    if n_ind == 1:
        return [(p,) for p in PRIORS]
    if n_ind == 3:
        base = [(PRIORS[0],) * 3, (PRIORS[1], PRIORS[2], PRIORS[0]), (PRIORS[3], PRIORS[0], PRIORS[2]), (PRIORS[2], PRIORS[2], PRIORS[1]), (PRIORS[0], PRIORS[3], PRIORS[3]), (PRIORS[1], PRIORS[0], PRIORS[3])]
        return base if tier == "thorough" else base[:4]
    base = [(PRIORS[0],) * 4, (PRIORS[1], PRIORS[2], PRIORS[0], PRIORS[3]), (PRIORS[3], PRIORS[0], PRIORS[2], PRIORS[1]), (PRIORS[2], PRIORS[1], PRIORS[3], PRIORS[0])]
    return base if tier == "thorough" else base[:3]


def layers(tier):
    T = tier == "thorough"
    L = []
    q2 = [3, 30]
    q4 = [1, 3, 10, 30]
    for R, C in [(1, 2), (2, 2), (3, 2), (4, 2), (1, 3), (2, 3), (3, 3), (1, 4), (2, 4)] + ([(5, 2), (4, 3), (3, 4), (2, 5)] if T else []):
        big = R * C >= 9
        huge = R * C >= 10  # 3x4, 2x5, 4x3, 5x2: two priors per column, one weight (the full product has 5 * 10^8 instances)
        L.append(c01.Layer(f"G1-single-{R}x{C}", "single", R, C, gls=prior_cols(1, tier) if not ((big and not T) or huge) else prior_cols(1, tier)[:2], weights=((q4 if (T and R * C <= 6) else q2) if R <= 3 else [10]) if not huge else [10], rcs=[10], minlen=2))
    # phred weights above 255 (outside the precomputed table of the implementation), not multiples of ten
    for R, C in [(2, 2), (3, 2)] + ([(2, 3)] if T else []):
        L.append(c01.Layer(f"G1-single-bigq-{R}x{C}", "single", R, C, gls=prior_cols(1, tier)[:2], weights=[257, 263, 301] if R == 2 else [257, 301], rcs=[10], minlen=2))
    for R, C in [(1, 2), (2, 2), (3, 2), (1, 3), (2, 3)] + ([(3, 3), (4, 2)] if T else []):
        big = R * C >= 6
        L.append(c01.Layer(f"G3-trio-{R}x{C}", "trio", R, C, gls=prior_cols(3, tier) if not big else prior_cols(3, tier)[: 2 if (not T or R * C >= 9) else 3], weights=[10] if R >= 3 else q2, rcs=[1, 10, 30] if not big else [1, 30], minlen=2))
    for R, C in [(1, 2), (2, 2)] + ([(3, 2), (1, 3), (2, 3)] if T else []):
        big = R * C >= 4
        L.append(c01.Layer(f"G4-quartet-{R}x{C}", "quartet", R, C, gls=prior_cols(4, tier) if not big else prior_cols(4, tier)[:2], weights=[10], rcs=[1, 10, 30] if not big else [1, 30], minlen=2))
    return L


def to_c08(inst):
    """c01.Layer yields 'gl' (per individual, per column); here it is the prior"""
    inst = dict(inst)
    inst["prior"] = inst.pop("gl")
    inst.pop("distrust", None)
    return inst


_L = {}


def make_run_block(tier):
    def run_block(block):
        if tier not in _L:
            _L[tier] = {l.name: l for l in layers(tier)}
        n = nt = 0
        viols = []
        worst = 0.0
        if block[0] == "G5":
            it = long_instances(block[1], block[2], tier)
        else:
            it = (to_c08(i) for i, ex in _L[tier][block[0]].instances(block[1]) if not ex)
        for inst in it:
            vs, w, want = judge(inst)
            n += 1
            worst = max(worst, w)
            # non-trivial: the posterior of some individual/column differs visibly from its prior
            if any(abs(want[c][i][g] - inst["prior"][i][c][g]) > 1e-3 for c in range(inst["C"]) for i in range(len(want[c])) for g in range(3)):
                nt += 1
            if vs and len(viols) < 6:
                viols.extend(vs[:2])
        return Result(n=n, nontrivial=nt, violations=viols, extra={"worst_e15": int(worst * 1e15)}, outcome=(block[0], n > 0))

    return run_block


def long_blocks(tier):
    for b in c01.long_blocks(tier):
        yield ("G5", b[1], b[2])


def long_instances(C, i, tier):
    for inst, ex in c01.long_instances(C, i, tier):
        if any(sum(1 for a in r[1] if a >= 0) < 2 for r in inst["reads"]):
            continue
        n_ind = oracle.PEDS[inst["ped"]][0]
        for pi, rcv in ((0, 10), (2, 1)):
            new = {"ped": inst["ped"], "C": C, "reads": [[r[0], r[1], [10 if a >= 0 else 0 for a in r[1]]] for r in inst["reads"]], "rc": [rcv] * C}
            new["prior"] = [[list(PRIORS[(pi + c + i_) % 4]) for c in range(C)] for i_ in range(n_ind)]
            yield new
            if inst["ped"] == "single":
                break


def selftest():
    import random

    # values "computed manually" in the repository's tests (test_geno_exact3, test_geno_priors1)
    inst = {"ped": "single", "C": 2, "reads": [[0, [0, 1], [10, 10]], [0, [1, 1], [10, 10]]], "rc": [1, 1], "prior": [[[1 / 3] * 3, [1 / 3] * 3]]}
    exp = [[0.22163406214039125, 0.5567318757192175, 0.22163406214039125], [0.009896432681242807, 0.18849252013808976, 0.8016110471806674]]
    for mode in (0, 1):
        got = oracle.c_genotype_posterior(inst, mode)
        for c in range(2):
            assert all(abs(a - b) < 1e-12 for a, b in zip(got[c][0], exp[c])), (mode, got)
    inst["prior"] = [[[0.1, 0.8, 0.1], [0.1, 0.2, 0.7]]]
    exp = [[0.04257892641700095, 0.9148421471659981, 0.04257892641700095], [0.0016688611936185199, 0.05208684202468078, 0.9462442967817007]]
    got = oracle.c_genotype_posterior(inst, 1)
    py = oracle.py_genotype_posterior(inst)
    for c in range(2):
        assert all(abs(a - b) < 1e-12 for a, b in zip(got[c][0], exp[c])), got
        assert all(abs(a - b) < 1e-12 for a, b in zip(py[c][0], exp[c])), py
    rnd = random.Random(777)
    for _ in range(60):
        ped = rnd.choice(["single", "trio", "quartet", "single"])
        n_ind = oracle.PEDS[ped][0]
        C = 2 if ped != "single" else rnd.randint(2, 3)
        R = rnd.randint(1, 2 if ped == "quartet" else 3)
        reads = []
        for _r in range(R):
            al = [rnd.choice((0, 1)) for _ in range(C)]
            reads.append([rnd.randrange(n_ind), al, [rnd.choice((1, 3, 10, 30)) for _ in al]])
        inst = {"ped": ped, "C": C, "reads": reads, "rc": [rnd.choice((1, 10, 30)) for _ in range(C)], "prior": [[list(rnd.choice(PRIORS)) for _ in range(C)] for _ in range(n_ind)]}
        a = oracle.c_genotype_posterior(inst, 0)
        b = oracle.c_genotype_posterior(inst, 1)
        for c in range(C):
            for i in range(n_ind):
                assert all(abs(x - y) < 1e-12 for x, y in zip(a[c][i], b[c][i])), (inst, a, b)
        if ped != "quartet":
            p = oracle.py_genotype_posterior(inst)
            for c in range(C):
                for i in range(n_ind):
                    assert all(abs(x - y) < 1e-10 for x, y in zip(a[c][i], p[c][i])), (inst, a, p)


# ------------------------------------------------------------------------------ VCF clause
def vcf_worlds(tier):
    T = tier == "thorough"
    seed = int(os.environ.get("VERIF_SEED", "0")) + 5
    for k in (2, 3):
        vs = [{"pos": 60 + 40 * i, "kind": "SNV", "len": 1} for i in range(k)]
        chroms = [{"name": "chrA", "length": 60 + 40 * k + 60, "variants": vs}]
        spans = [(i, j) for i in range(k) for j in range(i + 1, k)]
        hap_patterns = [p for p in itertools.product((0, 1), repeat=k) if p[0] == 0]
        for hp in hap_patterns:
            for hom in [None] + list(range(k)):
                for depth in (1, 3, 9) + ((6, 14) if T else ()):
                    for nerr in (0, 1, 2):
                        for thr in (0, 3, 10, 20):
                            for nopriors in (False, True):
                                if not T and nopriors and thr in (3, 20):
                                    continue
                                haps = [[a, 1 - a] for a in hp]
                                if hom is not None:
                                    haps[hom] = [1, 1]
                                world = {"seed": seed, "chroms": chroms, "samples": ["S1"], "haps": {"S1": {"chrA": haps}}, "reads": [], "errors": nerr}
                                for a, b in spans:
                                    for h in (0, 1):
                                        world["reads"].append({"sample": "S1", "chrom": "chrA", "hap": h, "segs": [[a, b, 5, 5]], "n": depth})
                                yield world, dict(gt_qual_threshold=thr, nopriors=nopriors), None
                                if depth == 3 and nerr == 0 and thr in (0, 10) and hom in (None, 0):
                                    yield dict(world, dup=True), dict(gt_qual_threshold=thr, nopriors=nopriors), None
                                if not nopriors and depth in (1, 3) and nerr < 2 and (T or hom in (None, 0)):
                                    # regularised priors; the prior VCF is judged by the same rules
                                    yield world, dict(gt_qual_threshold=thr, constant=0.2 if thr != 3 else 1.0), None
    # two unrelated samples with different evidence, genotyped in one run: every sample's calls must equal those of
    # the run restricted to that sample (nothing of one sample's result may reach the other)
    for nopriors in (True, False):
        for depth_a, depth_b in ((1, 4), (4, 1), (2, 2)):
            k = 2
            vs = [{"pos": 60 + 40 * i, "kind": "SNV", "len": 1} for i in range(k)]
            chroms = [{"name": "chrA", "length": 60 + 40 * k + 60, "variants": vs}]
            world = {"seed": seed, "chroms": chroms, "samples": ["A", "B"], "haps": {"A": {"chrA": [[0, 1], [0, 1]]}, "B": {"chrA": [[1, 1], [0, 1]]}}, "reads": [], "errors": 0, "per_sample": True}
            for s_, dp in (("A", depth_a), ("B", depth_b)):
                for h in (0, 1):
                    world["reads"].append({"sample": s_, "chrom": "chrA", "hap": h, "segs": [[0, 1, 5, 5]], "n": dp})
            yield world, dict(gt_qual_threshold=0, nopriors=nopriors), None
    # trio
    for hp_f, hp_m in [((0, 0), (0, 1)), ((0, 1), (0, 0))]:
        for thr in (0, 10):
            for depth in (2,):
                k = 2
                vs = [{"pos": 60 + 40 * i, "kind": "SNV", "len": 1} for i in range(k)]
                chroms = [{"name": "chrA", "length": 60 + 40 * k + 60, "variants": vs}]
                F = [[a, 1 - a] for a in hp_f]
                M = [[a, 1 - a] for a in hp_m]
                Cc = [[F[i][0], M[i][1]] for i in range(k)]
                world = {"seed": seed, "chroms": chroms, "samples": ["F", "M", "C"], "haps": {"F": {"chrA": F}, "M": {"chrA": M}, "C": {"chrA": Cc}}, "reads": [], "errors": 0}
                for s in ("F", "M", "C"):
                    for h in (0, 1):
                        world["reads"].append({"sample": s, "chrom": "chrA", "hap": h, "segs": [[0, 1, 5, 5]], "n": depth})
                yield world, dict(gt_qual_threshold=thr), [("C", "F", "M")]


def introduce_errors(world, paths, nerr):
    """flip the base at the first variant in the first nerr reads (deliberate read errors)"""
    if not nerr:
        return
    import pysam

    bam = paths["bam"]
    tmp = bam + ".tmp.bam"
    v = paths["variants"][0][0]
    with pysam.AlignmentFile(bam) as f, pysam.AlignmentFile(tmp, "wb", header=f.header) as out:
        done = 0
        for s in f:
            if done < nerr and s.reference_start <= v.pos < s.reference_end:
                q = s.query_qualities
                seq = list(s.query_sequence)
                off = v.pos - s.reference_start
                seq[off] = v.alts[0] if seq[off] == v.ref else v.ref
                s.query_sequence = "".join(seq)
                s.query_qualities = q
                done += 1
            out.write(s)
    os.replace(tmp, bam)
    pysam.index(bam)


_scratch = None


def run_vcf(inst):
    global _scratch
    from whatshap.cli.genotype import run_genotype

    if _scratch is None:
        _scratch = synth.Scratch("c08")
    world, opts, trios = inst
    d = _scratch.sub("w")
    viols = []
    n = nt = indet = 0
    try:
        paths = pw.materialize(world, d)
        introduce_errors(world, paths, world.get("errors", 0))
        if world.get("dup"):
            # a second record on the coordinate of the first variant with another ALT allele (ID "dup"): the reader keeps
            # the first record of a coordinate, so this one is not genotyped (uniform GL, no call)
            pv = synth.parse_vcf(paths["vcf"])
            lines = list(pv["header"]) + ["\t".join(["#CHROM", "POS", "ID", "REF", "ALT", "QUAL", "FILTER", "INFO", "FORMAT"] + pv["samples"])]
            for ri, rec in enumerate(pv["records"]):
                lines.append(rec["line"])
                if ri == 0:
                    t = rec["line"].split("\t")
                    t[2] = "dup"
                    t[4] = [b for b in "ACGT" if b != t[3] and b != t[4]][0]
                    lines.append("\t".join(t))
            with open(paths["vcf"], "w") as f:
                f.write("\n".join(lines) + "\n")
        kw = dict(opts)
        if trios:
            kw["ped"] = synth.write_ped(os.path.join(d, "fam.ped"), trios)
        out = os.path.join(d, "gt.vcf")
        prior_out = os.path.join(d, "prior.vcf")
        if not kw.get("nopriors"):
            kw["prioroutput"] = prior_out
        try:
            with open(out, "w") as f:
                run_genotype([paths["bam"]], paths["vcf"], reference=paths["fasta"], output=f, write_command_line_header=False, **kw)
        except Exception as e:  # noqa
            return Result(violations=[_vw("error", f"whatshap genotype failed: {type(e).__name__}: {e}", inst)])
        parsed = synth.parse_vcf(out)
        if world.get("per_sample"):
            for si, sname in enumerate(parsed["samples"]):
                solo = os.path.join(d, f"gt_{sname}.vcf")
                kw2 = {k_: v_ for k_, v_ in kw.items() if k_ != "prioroutput"}
                with open(solo, "w") as f:
                    run_genotype([paths["bam"]], paths["vcf"], reference=paths["fasta"], output=f, write_command_line_header=False, samples=[sname], **kw2)
                ps = synth.parse_vcf(solo)
                for r_joint, r_solo in zip(parsed["records"], ps["records"]):
                    cj, cs = r_joint["calls"][si], r_solo["calls"][ps["samples"].index(sname)]
                    gj = [float(x) for x in cj.get("GL", "0,0,0").split(",")]
                    gs = [float(x) for x in cs.get("GL", "0,0,0").split(",")]
                    if cj.get("GT") != cs.get("GT") or any(abs(10**a - 10**b) > 1e-4 for a, b in zip(gj, gs)):
                        viols.append(_vw("joint-vs-single-sample", f"{r_joint['pos']} sample {sname}: {cj} in the joint run, {cs} when genotyped alone", inst))
        all_records = [("", r) for r in parsed["records"]]
        if not kw.get("nopriors") and os.path.exists(prior_out):
            all_records += [("[prior VCF] ", r) for r in synth.parse_vcf(prior_out)["records"]]
        thr = opts.get("gt_qual_threshold", 0)
        thr_prob = 1.0 - 10 ** (-thr / 10.0)
        for which, rec in all_records:
            for call in rec["calls"]:
                n += 1
                gl = call.get("GL")
                if rec["id"] == "dup":
                    gt_, _ = synth.gt_parse(call.get("GT"))
                    gls_ = [float(x) for x in gl.split(",")] if gl not in (None, ".") else []
                    if (gt_ is not None and None not in gt_) or len(gls_) != 3 or max(gls_) - min(gls_) > 1e-3:
                        viols.append(_vw("not-genotyped-record", f"{which}{rec['pos']} (second record on that coordinate, ALT {rec['alt']}): call {call} although the record was not genotyped", inst))
                    continue
                if gl in (None, "."):
                    viols.append(_vw("gl-missing", f"{rec['pos']}: no GL in {call}", inst))
                    continue
                gls = [float(x) for x in gl.split(",")]
                probs = [10**x for x in gls]
                # printed with ~6 significant digits
                if abs(sum(probs) - 1.0) > 1e-4:
                    viols.append(_vw("gl-sum", f"{rec['pos']}: sum 10^GL = {sum(probs)} for {call}", inst))
                    continue
                gt, _ = synth.gt_parse(call.get("GT"))
                order = sorted(range(3), key=lambda i: probs[i])
                top, second = order[2], order[1]
                margin = abs(probs[top] - probs[second])
                near_thr = abs(probs[top] - thr_prob) < 1e-4
                if margin < 1e-5 or near_thr:
                    indet += 1
                    continue
                expect = [[0, 0], [0, 1], [1, 1]][top] if probs[top] > thr_prob else None
                if expect is None:
                    if gt is not None and None not in gt:
                        viols.append(_vw("gt", f"{rec['pos']}: GT {call.get('GT')} but best probability {probs[top]} <= threshold {thr_prob}", inst))
                    continue
                nt += 1
                if gt is None or sorted(gt) != expect:
                    viols.append(_vw("gt", f"{rec['pos']}: GT {call.get('GT')} but arg max of GL {gls} is {expect}", inst))
                    continue
                other = sum(probs[i] for i in range(3) if i != top)
                gq = call.get("GQ")
                if gq in (None, "."):
                    viols.append(_vw("gq", f"{rec['pos']}: GQ missing", inst))
                    continue
                if other <= 0:
                    continue
                exact = -10 * math.log10(other)
                want = min(round(exact), 10000)
                if int(gq) != want:
                    # rounding boundary within the precision of the printed GL values?
                    if abs(exact - math.floor(exact) - 0.5) < 2e-2 or abs(int(gq) - exact) < 0.5 + 5e-2:
                        indet += 1
                    else:
                        viols.append(_vw("gq", f"{rec['pos']}: GQ {gq}, phred-scaled mass of the other genotypes is {exact:.4f}", inst))
    finally:
        for f in os.listdir(d):
            os.unlink(os.path.join(d, f))
    return Result(n=max(1, n), nontrivial=nt, violations=viols[:4], indeterminate=indet, outcome=("vcf", len(viols) > 0))


# ------------------------------------------------------------------------------ GT/GL/GQ rule on exact distributions
RULE_THRESHOLDS = (0, 3, 10, 13, 20, 30)


def rule_triples(tier):
    """every distribution over the three genotypes on a grid of step 1/20 (1/40), plus a few non-grid ones;
    includes exact two- and three-way ties, zero entries and maxima equal to the threshold probability"""
    N = 40 if tier == "thorough" else 20
    out = [(a / N, b / N, (N - a - b) / N) for a in range(N + 1) for b in range(N + 1 - a)]
    out += [(1 / 3, 1 / 3, 1 / 3), (0.376, 0.248, 0.376), (0.248, 0.376, 0.376), (0.376, 0.376, 0.248), (0.5 - 1e-12, 0.5 - 1e-12, 2e-12)]
    out += [(1.0 - 10 ** (-t / 10.0), 10 ** (-t / 10.0) / 2, 10 ** (-t / 10.0) / 2) for t in RULE_THRESHOLDS if t]
    out += [(10 ** (-t / 10.0) / 4, 1.0 - 10 ** (-t / 10.0), 3 * 10 ** (-t / 10.0) / 4) for t in RULE_THRESHOLDS if t]
    return out


def rule_space(tier):
    T = rule_triples(tier)
    chunk = 120
    for thr in RULE_THRESHOLDS:
        for i in range(0, len(T), chunk):
            yield ("rule", thr, T[i : i + chunk])


def run_rule(inst):
    """the real determine_genotype and GenotypeVcfWriter.write_genotypes on given distributions"""
    global _scratch
    from whatshap.cli.genotype import determine_genotype
    from whatshap.core import PhredGenotypeLikelihoods
    from whatshap.vcf import GenotypeVcfWriter, VcfReader

    if _scratch is None:
        _scratch = synth.Scratch("c08")
    _, thr, triples = inst
    d = _scratch.sub("r")
    thr_prob = 1.0 - (10 ** (-thr / 10.0))
    seq = synth.make_reference(17, 60 + 10 * len(triples) + 60)
    vcf = synth.VcfText(["S1"], contigs=[("chrA", len(seq))])
    for i in range(len(triples)):
        p = 50 + 10 * i
        vcf.add("chrA", p, seq[p], [synth.other_base(seq[p])], ["0/1"])
    vin = vcf.write(os.path.join(d, "in.vcf"))
    out = os.path.join(d, "out.vcf")
    viols = []
    nt = 0
    try:
        with VcfReader(vin, only_snvs=False, genotype_likelihoods=False) as vr:
            table = list(vr)[0]
        assert len(table.variants) == len(triples)
        gls = [PhredGenotypeLikelihoods(list(t)) for t in triples]
        genos = [determine_genotype(g, thr_prob) for g in gls]
        table.set_genotype_likelihoods_of("S1", gls)
        table.set_genotypes_of("S1", genos)
        with open(out, "w") as f:
            w = GenotypeVcfWriter(command_line=None, in_path=vin, out_file=f)
            w.write_genotypes("chrA", table, False)
            if hasattr(w, "close"):
                w.close()
        parsed = synth.parse_vcf(out)
        if len(parsed["records"]) != len(triples):
            return Result(violations=[_vr("records", f"{len(triples)} records in, {len(parsed['records'])} out", inst, None)])
        for t, rec in zip(triples, parsed["records"]):
            call = rec["calls"][0]
            top = max(t)
            unique = sum(1 for x in t if x == top) == 1
            want = [[0, 0], [0, 1], [1, 1]][t.index(top)] if unique and top > thr_prob else None
            gt, _ = synth.gt_parse(call.get("GT"))
            if gt is not None and None in gt:
                gt = None
            if (gt is None) != (want is None) or (gt is not None and sorted(gt) != want):
                why = "unique maximum above the threshold" if want else ("no unique maximum" if not unique else f"maximum {top} does not exceed the threshold probability {thr_prob}")
                viols.append(_vr("gt", f"distribution {t}, threshold {thr}: GT {call.get('GT')}, expected {want} ({why})", inst, t))
                continue
            gl = call.get("GL")
            try:
                g = [float(x) for x in gl.split(",")]
            except Exception:  # noqa
                viols.append(_vr("gl", f"distribution {t}: GL {gl!r}", inst, t))
                continue
            for x, y in zip(t, g):
                e = math.log10(x) if x > 0 else None
                if len(g) != 3 or (e is None and y > -300) or (e is not None and abs(y - max(e, -1000)) > 1e-4 * max(1.0, abs(e))):
                    viols.append(_vr("gl", f"distribution {t}: GL {gl}, expected log10 of the distribution", inst, t))
                    break
            if want is not None:
                nt += 1
                other = sum(x for x in t if x != top)
                gq = call.get("GQ")
                if gq in (None, "."):
                    viols.append(_vr("gq", f"distribution {t}: genotype called but GQ missing", inst, t))
                elif other > 0:
                    exact = -10 * math.log10(other)
                    if abs(int(gq) - min(exact, 10000)) > 0.5 + 1e-6:
                        viols.append(_vr("gq", f"distribution {t}: GQ {gq}, phred-scaled mass of the other genotypes {exact:.4f}", inst, t))
            elif call.get("GQ") not in (None, "."):
                viols.append(_vr("gq", f"distribution {t}: no genotype called but GQ {call.get('GQ')}", inst, t))
    except Exception as e:  # noqa
        import traceback

        tb = traceback.extract_tb(e.__traceback__)[-1]
        viols.append(_vr("error", f"{type(e).__name__}: {e} at {os.path.basename(tb.filename)}:{tb.lineno}", inst, None))
    finally:
        for f in os.listdir(d):
            os.unlink(os.path.join(d, f))
    return Result(n=len(triples), nontrivial=nt, violations=viols[:4], outcome=("rule", thr, len(viols) > 0))


def _vr(clause, detail, inst, t):
    return {"clause": clause, "signature": "c08:rule-" + clause, "detail": detail, "instance": {"rule": [inst[1], [list(t)] if t else [list(x) for x in inst[2]]]}}


def _vw(clause, detail, inst):
    return {"clause": clause, "signature": "c08:vcf-" + clause, "detail": detail, "instance": {"world": inst[0], "opts": inst[1], "trios": inst[2]}}


def run(rep, tier, seed, only=None):
    selftest()
    c01.name_pool(seed)
    L = layers(tier)
    rb = make_run_block(tier)

    def space():
        for l in L:
            if only and not any(l.name.startswith(o) for o in only):
                continue
            yield from l.blocks()
        if not only or "G5" in only:
            yield from long_blocks(tier)

    st = par.explore(space, rb, label="C08/core")
    rep.add_violations(st.violations)
    rep.add_crashes(st.crashes, "core")
    st2 = par.ShardStats()
    if not only or "vcf" in only:
        st2 = par.explore(lambda: vcf_worlds(tier), run_vcf, label="C08/vcf")
        rep.add_violations(st2.violations)
        rep.add_crashes(st2.crashes, "vcf")
    st3 = par.ShardStats()
    if not only or "rule" in only:
        st3 = par.explore(lambda: rule_space(tier), run_rule, label="C08/rule")
        rep.add_violations(st3.violations)
        rep.add_crashes(st3.crashes, "rule")
    rep.coverage.update(
        evaluations=st.evaluations + st2.evaluations + st3.evaluations,
        distinct_nontrivial=st.nontrivial + st2.nontrivial + st3.nontrivial,
        rule="core: every instance of the layered space (read matrices with >= 2 entries per read x base qualities x prior triples x "
        "recombination costs, single / trio / quartet, long tables); non-trivial = posterior differs from the prior by > 1e-3 somewhere. "
        "vcf: every genotyped call of every world; non-trivial = call with a unique maximum above the threshold. "
        "rule: determine_genotype + GenotypeVcfWriter on every distribution of a 1/20 (1/40) grid (ties, zeros, maxima equal to the threshold) x thresholds",
        samples=[{"block": s} for s in st.samples[:4]] + [{"vcf_world_opts": s[1]} for s in st2.samples[:2]],
        exhaustive=True,
        core_instances=st.evaluations,
        vcf_calls=st2.evaluations,
        rule_distributions=st3.evaluations,
        indeterminate=st2.indeterminate,
        layers=[l.name for l in L] + ["G5"],
        distinct_outcomes=len(st.outcomes) + len(st2.outcomes),
        tolerance=f"|impl - ref| <= {REL_TOL} * ref + {ABS_TOL}",
    )
    rep.assumptions += [
        "base quality 0 excluded (the implementation maps it to an error probability of 0.9999, a constant the model does not define)",
        "every read covers at least two variants (asserted by the implementation)",
        "reference posterior computed in long double without scaling",
    ]


def replay(v):
    i = v["instance"]
    if "inst" in i:
        return judge(i["inst"])[0]
    if "rule" in i:
        return run_rule(("rule", i["rule"][0], [tuple(t) for t in i["rule"][1]])).violations
    return run_vcf((i["world"], i["opts"], [tuple(t) for t in i["trios"]] if i["trios"] else None)).violations
