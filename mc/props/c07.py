"""C07  Read selection never exceeds the coverage cap and leaves no admissible read out.

(a) whatshap.readselect.readselection on every multiset of <= 5 reads over <= 5 variant
    positions (a read = any subset of >= 2 positions) x cap x bridging x every subset of
    reads marked as preferred source x quality levels;
(b) `whatshap phase` with the trace hook: reads handed to the solver per family never span a
    variant more than --internal-downsampling times in total.
"""
import itertools
import os

from mc import par, phaseworld as pw, synth
from mc.par import Result

LEVEL = "exploration"


def read_kinds(n):
    out = []
    for size in range(2, n + 1):
        for sub in itertools.combinations(range(n), size):
            out.append(sub)
    return out


def blocks(tier):
    """block = (n positions, multiset prefix of read kinds (R-1 reads)); last read + options inside"""
    T = tier == "thorough"
    for n in (2, 3, 4, 5) + ((6,) if T else ()):
        kinds = read_kinds(n)
        maxR = 5 if n <= 5 else 4
        if T and n == 5:
            maxR = 6
        for R in range(1, maxR + 1):
            for prefix in itertools.combinations_with_replacement(range(len(kinds)), R - 1):
                yield (n, prefix)


def judge_selection(n, reads, k, bridging, preferred, quals):
    """reads: list of position-index tuples; returns list of violation details"""
    from whatshap.core import Read, ReadSet
    from whatshap.readselect import readselection

    rs = ReadSet()
    for i, sub in enumerate(reads):
        r = Read(f"r{i}", 60, 1 if i in preferred else 0, 0)
        for p in sub:
            r.add_variant((p + 1) * 10, 0, quals[i])
        rs.add(r)
    rs.sort()
    order = [int(r.name[1:]) for r in rs]
    sel = readselection(rs, k, {1} if preferred else None, bridging)
    out = []
    sel = set(sel)
    if not sel <= set(range(len(reads))):
        return [("subset", f"selected indices {sorted(sel)} not a subset of 0..{len(reads) - 1}")], sel
    spans = [(min(reads[order[i]]), max(reads[order[i]])) for i in range(len(reads))]
    cov = [0] * n
    for i in sel:
        for v in range(spans[i][0], spans[i][1] + 1):
            cov[v] += 1
    if max(cov) > k:
        out.append(("cap", f"coverage {cov} exceeds cap {k}; selected {sorted(sel)} of spans {spans}"))
    for i in range(len(reads)):
        if i in sel:
            continue
        if all(cov[v] < k for v in range(spans[i][0], spans[i][1] + 1)):
            out.append(("maximal", f"read {i} span {spans[i]} left out although coverage {cov} stays below cap {k} on its span; selected {sorted(sel)} of spans {spans}, preferred {sorted(preferred)}"))
            break
    return out, sel


def run_block(block):
    n, prefix = block
    kinds = read_kinds(n)
    lo = prefix[-1] if prefix else 0
    viols = []
    cnt = nt = 0
    outcomes = set()
    for last in range(lo, len(kinds)):
        idx = list(prefix) + [last]
        reads = [kinds[i] for i in idx]
        R = len(reads)
        for k in (1, 2, 3):
            for bridging in (True, False):
                prefsets = [()]
                if R <= 4:
                    prefsets = [c for m in range(R + 1) for c in itertools.combinations(range(R), m)]
                qualsets = [tuple([30] * R)]
                if R <= 3:
                    qualsets = list(itertools.product((10, 30), repeat=R))
                for pref in prefsets:
                    for quals in qualsets if not pref else qualsets[:1]:
                        cnt += 1
                        res, sel = judge_selection(n, reads, k, bridging, set(pref), quals)
                        if len(sel) < R:
                            nt += 1
                        outcomes.add((len(sel), R, bool(pref)))
                        for clause, detail in res:
                            if len(viols) < 6:
                                viols.append(
                                    {
                                        "clause": clause,
                                        "signature": "c07:" + clause + (":preferred" if pref else ""),
                                        "detail": detail,
                                        "instance": {"n": n, "reads": [list(r) for r in reads], "k": k, "bridging": bridging, "preferred": list(pref), "quals": list(quals)},
                                    }
                                )
    return Result(n=cnt, nontrivial=nt, violations=viols, outcomes=outcomes)


# ------------------------------------------------------------------------ long reads over many variants
BIG_N = 200
BIG_ANCHORS = (0, 64, 70, 100, 128, 199)


BIG_SCALES = (1, 4)  # 200 positions (blocks of 64 would show) and 800 positions (blocks of 256)


def big_kinds(tier, scale=1):
    anchors = BIG_ANCHORS + ((63, 127, 150) if tier == "thorough" else ())
    anchors = tuple(sorted(min(a * scale, BIG_N * scale - 1) if a != 199 else BIG_N * scale - 1 for a in anchors))
    out = []
    for a, b in itertools.combinations(anchors, 2):
        out.append(tuple(range(a, b + 1)))  # covers every variant between its ends
        out.append((a, b))  # covers its two end variants only (mate-pair like)
    return out


def big_blocks(tier):
    kinds = big_kinds(tier)
    for scale in BIG_SCALES:
        for R in (1, 2, 3):
            for prefix in itertools.combinations_with_replacement(range(len(kinds)), R - 1):
                if scale > 1 and R == 3 and tier != "thorough" and (prefix[0] + prefix[1]) % 3:
                    continue  # the larger scale on a third of the three-read prefixes
                yield ("big", tier, prefix, scale)


def run_big(block):
    _, tier, prefix, scale = block
    kinds = big_kinds(tier, scale)
    N = BIG_N * scale
    backbone = tuple(range(N))
    lo = prefix[-1] if prefix else 0
    viols = []
    cnt = nt = 0
    outcomes = set()
    for last in range(lo, len(kinds)):
        idx = list(prefix) + [last]
        for with_backbone in (False, True):
            reads = [kinds[i] for i in idx] + ([backbone] if with_backbone else [])
            R = len(reads)
            for k in (1, 2, 3):
                for bridging in (True, False):
                    prefsets = [()] if R > 2 else [c for m in range(R + 1) for c in itertools.combinations(range(R), m)]
                    for pref in prefsets:
                        cnt += 1
                        res, sel = judge_selection(N, reads, k, bridging, set(pref), [30] * R)
                        if len(sel) < R:
                            nt += 1
                        outcomes.add(("big", len(sel), R, bool(pref)))
                        for clause, detail in res:
                            if len(viols) < 4:
                                viols.append(
                                    {
                                        "clause": clause,
                                        "signature": "c07:" + clause + ":many-variants",
                                        "detail": detail[:600],
                                        "instance": {"n": N, "reads_as_ranges": [[r[0], r[-1], len(r)] for r in reads], "k": k, "bridging": bridging, "preferred": list(pref)},
                                    }
                                )
    return Result(n=cnt, nontrivial=nt, violations=viols, outcomes=outcomes)


# ------------------------------------------------------------------------ pipeline clause
def pipeline_worlds(tier):
    T = tier == "thorough"
    seed = int(os.environ.get("VERIF_SEED", "0")) + 3
    for nvar in (3, 4) + ((5,) if T else ()):
        vs = [{"pos": 60 + 40 * i, "kind": "SNV", "len": 1} for i in range(nvar)]
        chroms = [{"name": "chrA", "length": 60 + 40 * nvar + 60, "variants": vs}]
        spans = [(i, j) for i in range(nvar) for j in range(i + 1, nvar)]
        # single sample
        for k in (1, 2, 3):
            for design in range(4):
                depth = 2 * k + 1
                chosen = spans if design == 0 else spans[::2] if design == 1 else spans[::-1] if design == 2 else [s for s in spans if s[1] - s[0] == 1]
                world = {"seed": seed, "chroms": chroms, "samples": ["S1"], "haps": {"S1": {"chrA": [[0, 1]] * nvar}}, "reads": []}
                for a, b in chosen:
                    for h in (0, 1):
                        world["reads"].append({"sample": "S1", "chrom": "chrA", "hap": h, "segs": [[a, b, 5, 5]], "n": depth})
                yield world, dict(max_coverage=k), None
                # the same with --merge-reads (identical error-free reads are merged before the selection)
                yield world, dict(max_coverage=k, read_merging=True, read_merging_positive_threshold=5, read_merging_negative_threshold=5), None
        # trio
        for k in (3, 4, 6) + ((2, 5, 7) if T else ()):
            for design in range(3):
                depth = (2 * k) // 3 + 2
                chosen = spans if design == 0 else spans[::2] if design == 1 else [s for s in spans if s[1] - s[0] == 1]
                haps = {"F": {"chrA": [[0, 1]] * nvar}, "M": {"chrA": [[0, 1]] * nvar}, "C": {"chrA": [[0, 1]] * nvar}}
                world = {"seed": seed, "chroms": chroms, "samples": ["F", "M", "C"], "haps": haps, "reads": []}
                for s in ("F", "M", "C"):
                    for a, b in chosen:
                        for h in (0, 1):
                            world["reads"].append({"sample": s, "chrom": "chrA", "hap": h, "segs": [[a, b, 5, 5]], "n": depth})
                yield world, dict(max_coverage=k), [("C", "F", "M")]
        # trio in which the mother has no alignments at all but phased blocks in a phased VCF given as phase input
        # (pseudo reads from a preferred source count against the same budget)
        for k in (3, 4, 6) + ((5, 7, 8) if T else ()):
            for design in range(2):
                for nblocks in (1, 2):
                    depth = (2 * k) // 2 + 2
                    chosen = spans if design == 0 else [s for s in spans if s[1] - s[0] == 1]
                    haps = {"F": {"chrA": [[0, 1]] * nvar}, "M": {"chrA": [[0, 1]] * nvar}, "C": {"chrA": [[0, 1]] * nvar}}
                    world = {"seed": seed, "chroms": chroms, "samples": ["F", "M", "C"], "haps": haps, "reads": [], "vcf_phase_for": "M", "vcf_phase_blocks": nblocks, "no_read_group": ["M"] if design == 0 else []}
                    for s in ("F", "C"):
                        for a, b in chosen:
                            for h in (0, 1):
                                world["reads"].append({"sample": s, "chrom": "chrA", "hap": h, "segs": [[a, b, 5, 5]], "n": depth})
                    yield world, dict(max_coverage=k), [("C", "F", "M")]


_scratch = None


def run_pipeline(inst):
    global _scratch
    if _scratch is None:
        _scratch = synth.Scratch("c07")
    world, opts, trios = inst
    d = _scratch.sub("w")
    viols = []
    try:
        paths = pw.materialize(world, d)
        kw = dict(opts)
        if trios:
            kw["ped"] = synth.write_ped(os.path.join(d, "fam.ped"), trios)
        if world.get("vcf_phase_for"):
            who = world["vcf_phase_for"]
            pv = synth.parse_vcf(paths["vcf"])
            si = pv["samples"].index(who)
            lines = list(pv["header"]) + [synth.FORMAT_LINES["PS"], "\t".join(["#CHROM", "POS", "ID", "REF", "ALT", "QUAL", "FILTER", "INFO", "FORMAT", who])]
            nrec = len(pv["records"])
            for ri, rec in enumerate(pv["records"]):
                t = rec["line"].split("\t")
                first = 0 if world["vcf_phase_blocks"] == 1 or ri < 2 or nrec < 4 else 2
                lines.append("\t".join(t[:8] + ["GT:PS", "0|1:" + str(pv["records"][first]["pos"])]))
            pin = os.path.join(d, "phased_input.vcf")
            with open(pin, "w") as f:
                f.write("\n".join(lines) + "\n")
            kw["phase_inputs"] = [paths["bam"], pin]
        parsed, traces, err = pw.run_phase(paths, d, **kw)
        k = opts["max_coverage"]
        nt = False
        if err:
            viols.append({"clause": "error", "signature": "c07:pipeline-error", "detail": err, "instance": {"world": world, "opts": opts, "trios": trios}})
        for t in traces:
            fam = len(t["family"])
            if fam > k:
                continue  # the statement is about families of at most k members
            acc = t["accessible_positions"]
            cov = {p: 0 for p in acc}
            for r in t["reads"]:
                ps = [x[0] for x in r["variants"]]
                for p in acc:
                    if min(ps) <= p <= max(ps):
                        cov[p] += 1
            nraw = sum(1 for r in world["reads"] for _ in range(r["n"]))
            if len(t["reads"]) < nraw:
                nt = True
            if cov and max(cov.values()) > k:
                viols.append(
                    {
                        "clause": "pipeline-cap",
                        "signature": "c07:pipeline-cap",
                        "detail": f"family {t['family']}: coverage per accessible position {cov} exceeds --internal-downsampling {k}",
                        "instance": {"world": world, "opts": opts, "trios": trios},
                    }
                )
    finally:
        for f in os.listdir(d):
            os.unlink(os.path.join(d, f))
    return Result(nontrivial=nt, violations=viols, outcome=("pipeline", len(viols)))


def run(rep, tier, seed, only=None):
    st = par.explore(lambda: blocks(tier), run_block, label="C07/selection")
    rep.add_violations(st.violations)
    rep.add_crashes(st.crashes, "selection")
    stb = par.explore(lambda: big_blocks(tier), run_big, label="C07/selection-many-variants")
    rep.add_violations(stb.violations)
    rep.add_crashes(stb.crashes, "selection-many-variants")
    st2 = par.explore(lambda: pipeline_worlds(tier), run_pipeline, label="C07/pipeline")
    rep.add_violations(st2.violations)
    rep.add_crashes(st2.crashes, "pipeline")
    rep.coverage.update(
        evaluations=st.evaluations + stb.evaluations + st2.evaluations,
        distinct_nontrivial=st.nontrivial + stb.nontrivial + st2.nontrivial,
        rule="selection: every multiset of reads (subsets of >= 2 of n positions) x cap {1,2,3} x bridging x preferred subsets (R <= 4) x "
        "quality levels (R <= 3); non-trivial = at least one read was left out. pipeline: traced solver instances in which selection discarded reads",
        samples=[{"block": s} for s in st.samples[:3]] + [{"pipeline_world": s[0]["reads"][:2], "opts": s[1]} for s in st2.samples[:2]],
        selection_calls=st.evaluations,
        selection_calls_many_variants=stb.evaluations,
        many_variants_rule=f"{BIG_N} variant positions; reads = every pair of anchors {BIG_ANCHORS} (thorough: +63, 127, 150) as a full-range read or as a read covering "
        "its two end variants only; every multiset of <= 3 such reads, with/without a read over all positions, x cap {1,2,3} x bridging x preferred subsets (<= 2 reads)",
        pipeline_runs=st2.evaluations,
        exhaustive=True,
        distinct_outcomes=len(st.outcomes) + len(st2.outcomes),
    )
    rep.assumptions += ["every read covers at least two variants (precondition of readselection)"]


def replay(v):
    i = v["instance"]
    if "world" in i:
        r = run_pipeline((i["world"], i["opts"], [tuple(t) for t in i["trios"]] if i["trios"] else None))
        return r.violations
    if "reads_as_ranges" in i:
        reads = [tuple(range(a, b + 1)) if n_ > 2 or b == a + 1 else (a, b) for a, b, n_ in i["reads_as_ranges"]]
        res, sel = judge_selection(i["n"], reads, i["k"], i["bridging"], set(i["preferred"]), [30] * len(reads))
        return [{"clause": c, "detail": d} for c, d in res]
    res, sel = judge_selection(i["n"], [tuple(r) for r in i["reads"]], i["k"], i["bridging"], set(i["preferred"]), i["quals"])
    return [{"clause": c, "detail": d} for c, d in res]
