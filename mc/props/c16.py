"""C16  Results depend on the input only: not on hash seed, thread count or repetition.

Three sources of nondeterminism, each put behind a seam the harness owns and enumerated:
 1. hash randomisation: every subcommand runs in fresh interpreters under PYTHONHASHSEED = 0, 1, 2, ...
    until EVERY iteration order of the sample-name set has been realised (measured in the child);
 2. polyphase worker scheduling: multiprocessing.Pool is replaced by a controlled pool that forks
    real workers and executes one chosen job -> worker assignment; all assignments up to worker
    symmetry are enumerated and compared with --threads 1 (plus the stock Pool for 1, 2, 4 threads);
 3. repetition in one interpreter and haplotag --output-threads in {1, 2, 4}.
All outputs are compared record for record with the first run (command line headers ignored).
"""
import itertools
import json
import math
import os
import pickle
import subprocess
import sys
from concurrent.futures import ThreadPoolExecutor

import pysam

from mc import build, phaseworld as pw, synth

LEVEL = "model_checking"
VERIF = os.path.dirname(os.path.dirname(os.path.dirname(os.path.abspath(__file__))))


# --------------------------------------------------------------------------- scenario files
def unrelated_world(names, seed, k=3, nchrom=2):
    chroms = []
    for ci in range(nchrom):
        chroms.append({"name": f"chr{ci + 1}", "length": 60 + 40 * k + 60, "variants": [{"pos": 60 + 40 * i, "kind": "SNV", "len": 1} for i in range(k)]})
    world = {"seed": seed, "chroms": chroms, "samples": list(names), "haps": {}, "reads": []}
    for si, s in enumerate(names):
        # a different pair of haplotypes per sample (hap 0 of sample si spells si + 1 in binary)
        world["haps"][s] = {c["name"]: [[((si + 1) >> (k - 1 - i)) & 1, 1 - (((si + 1) >> (k - 1 - i)) & 1)] for i in range(k)] for c in chroms}
        for c in chroms:
            for h in (0, 1):
                world["reads"].append({"sample": s, "chrom": c["name"], "hap": h, "segs": [[0, k - 1, 6, 6]], "n": 2})
                world["reads"].append({"sample": s, "chrom": c["name"], "hap": h, "segs": [[0, 1, 3, 9]], "n": 1})
    return world


def family_world(seed, k=3):
    names = ["dad", "mom", "kid", "solo"]
    chroms = [{"name": "chr1", "length": 60 + 40 * k + 60, "variants": [{"pos": 60 + 40 * i, "kind": "SNV", "len": 1} for i in range(k)]}]
    haps = {"dad": {"chr1": [[0, 1]] * k}, "mom": {"chr1": [[1, 0] if i % 2 else [0, 1] for i in range(k)]}, "solo": {"chr1": [[0, 1]] * k}}
    haps["kid"] = {"chr1": [[haps["dad"]["chr1"][i][0], haps["mom"]["chr1"][i][1]] for i in range(k)]}
    haps["kid"]["chr1"] = [("hom0" if e == [0, 0] else "hom1" if e == [1, 1] else e) for e in haps["kid"]["chr1"]]
    world = {"seed": seed, "chroms": chroms, "samples": names, "haps": haps, "reads": []}
    for s in names:
        for h in (0, 1):
            world["reads"].append({"sample": s, "chrom": "chr1", "hap": h, "segs": [[0, k - 1, 6, 6]], "n": 1})
    return world, names


def poly_world(names, seed, p=3, k=4, gaps=False, nvar=None):
    k = nvar or k
    chroms = [{"name": "chr1", "length": 60 + 40 * k + 60, "variants": [{"pos": 60 + 40 * i, "kind": "SNV", "len": 1} for i in range(k)]}]
    world = {"seed": seed, "chroms": chroms, "samples": list(names), "haps": {}, "reads": []}
    base = [[0, 1, 1], [1, 0, 1], [1, 1, 0], [0, 0, 1]]
    for si, s in enumerate(names):
        world["haps"][s] = {"chr1": [list(base[(i + si) % 4]) for i in range(k)]}
        if si > 0 and not gaps:
            # the samples differ in where they are heterozygous
            world["haps"][s]["chr1"][si - 1] = [1] * p
        for h in range(p):
            if gaps:
                for a in range(0, k - 1, 2):
                    world["reads"].append({"sample": s, "chrom": "chr1", "hap": h, "segs": [[a, a + 1, 6, 6]], "n": 2})
            else:
                for a in range(0, k - 1):
                    world["reads"].append({"sample": s, "chrom": "chr1", "hap": h, "segs": [[a, a + 1, 6, 6]], "n": 2})
    return world


def bgzip(path):
    gz = path + ".gz"
    pysam.tabix_compress(path, gz, force=True)
    pysam.tabix_index(gz, preset="vcf", force=True)
    return gz


def single_sample_copy(vcf_path, out_path, sample_index, new_name):
    """extract one sample column of a (phased) VCF under a new sample name"""
    p = synth.parse_vcf(vcf_path)
    lines = list(p["header"]) + ["\t".join(["#CHROM", "POS", "ID", "REF", "ALT", "QUAL", "FILTER", "INFO", "FORMAT", new_name])]
    for rec in p["records"]:
        t = rec["line"].split("\t")
        lines.append("\t".join(t[:9] + [t[9 + sample_index]]))
    with open(out_path, "w") as f:
        f.write("\n".join(lines) + "\n")
    return out_path


E_SPEC = ((8, 0, 2), (9, 2, 0), (10, 0, 2), (11, 2, 0), (9, 0, 2))  # both orders of the two patterns: cluster numbering differs between blocks


def forced_world(E, seed, spec):
    """diploid input with read-disconnected blocks; spec = (variants, reads of the REF haplotype showing ALT at the
    fourth variant, reads of the ALT haplotype showing ALT there) per block; five reads per haplotype"""
    os.makedirs(E)
    eseq = synth.make_reference(seed, 300 * len(spec) + 100)
    evcf = synth.VcfText(["S1"], contigs=[("chr1", len(eseq))])
    ealns = []
    for bi, (nv, ref_alt, alt_alt) in enumerate(spec):
        start = 100 + 300 * bi
        vs = [synth.make_variant(eseq, start + 10 * j, "SNV") for j in range(nv)]
        for v in vs:
            evcf.add("chr1", v.pos, v.ref, v.alts, ["0/1"])
        for hap_allele, n_alt in ((0, ref_alt), (1, alt_alt)):
            for i in range(5):
                row = [hap_allele] * nv
                row[3] = 1 if i < n_alt else 0
                q, cig = synth.hap_read(eseq, vs, row, start - 5, start + 10 * nv + 5)
                ealns.append({"name": f"e{bi}_{hap_allele}_{i}", "chrom": "chr1", "start": start - 5, "cigar": cig, "seq": q, "rg": "rg1"})
    ebam = os.path.join(E, "reads.bam")
    synth.write_bam(ebam, [("chr1", len(eseq))], ealns, read_groups=[{"ID": "rg1", "SM": "S1"}])
    return {"vcf": evcf.write(os.path.join(E, "in.vcf")), "bam": ebam, "fasta": synth.write_fasta(os.path.join(E, "ref.fa"), [("chr1", eseq)])}


def prepare(d, seed, names):
    """build every input file once (deterministically, in this process)"""
    files = {}
    A = os.path.join(d, "A")
    os.makedirs(A)
    pa = pw.materialize(unrelated_world(names, seed), A)
    files["A"] = pa
    parsed, _, err = pw.run_phase(pa, A, out_name="phased.vcf", trace=False)
    assert err is None, err
    files["A_phased"] = os.path.join(A, "phased.vcf")
    files["A_phased_gz"] = bgzip(files["A_phased"])
    F = os.path.join(d, "F")
    os.makedirs(F)
    fw, fnames = family_world(seed + 1)
    pf = pw.materialize(fw, F)
    files["F"] = pf
    files["F_names"] = fnames
    files["F_ped"] = synth.write_ped(os.path.join(F, "fam.ped"), [("kid", "dad", "mom")])
    # the family again with three copies of every read and a VCF that claims 1/1 for dad, mom and kid at the first
    # variant (the reads show 0/1): a --distrust-genotypes run lists three genotype changes for one record
    F2 = os.path.join(d, "F2")
    os.makedirs(F2)
    fw2, _ = family_world(seed + 1)
    for r in fw2["reads"]:
        r["n"] = 3
    pf2 = pw.materialize(fw2, F2)
    con2 = os.path.join(F2, "contradicted.vcf")
    done_ = False
    with open(pf2["vcf"]) as f, open(con2, "w") as o:
        for line in f:
            t = line.rstrip("\n").split("\t")
            if not line.startswith("#") and len(t) > 9 and not done_:
                done_ = True
                t[9:] = [("1/1" if g == "0/1" else g) for g in t[9:]]
            o.write("\t".join(t) + "\n")
    files["F2"] = dict(pf2, vcf=con2)
    P = os.path.join(d, "P")
    os.makedirs(P)
    files["P"] = pw.materialize(poly_world(names, seed + 2), P)
    # polyploid input in which only one haplotype's reads link variants 2 and 3, so that the order of the other two
    # haplotypes across that link is open; only the SECOND sample carries a pre-phasing (one set over all variants,
    # the two open haplotypes swapped behind the link), which decides the link under --use-prephasing.  The other
    # samples have no phased block.
    P2 = os.path.join(d, "Pre")
    os.makedirs(P2)
    k2 = 4
    w2 = {"seed": seed + 5, "chroms": [{"name": "chr1", "length": 60 + 40 * k2 + 60, "variants": [{"pos": 60 + 40 * i, "kind": "SNV", "len": 1} for i in range(k2)]}], "samples": list(names), "haps": {}, "reads": []}
    for sn in names:
        w2["haps"][sn] = {"chr1": [[0, 1, 0] for _ in range(k2)]}
        for h in range(3):
            w2["reads"].append({"sample": sn, "chrom": "chr1", "hap": h, "segs": [[0, 1, 6, 6]], "n": 2})
            w2["reads"].append({"sample": sn, "chrom": "chr1", "hap": h, "segs": [[2, 3, 6, 6]], "n": 2})
        w2["reads"].append({"sample": sn, "chrom": "chr1", "hap": 2, "segs": [[1, 2, 6, 6]], "n": 2})
    p2 = pw.materialize(w2, P2)
    parsed = synth.parse_vcf(p2["vcf"])
    lines = list(parsed["header"]) + [synth.FORMAT_LINES["PS"], "\t".join(["#CHROM", "POS", "ID", "REF", "ALT", "QUAL", "FILTER", "INFO", "FORMAT"] + parsed["samples"])]
    for ri, rec in enumerate(parsed["records"]):
        t = rec["line"].split("\t")
        t[8] = "GT:PS"
        e = [0, 1, 0] if ri < 2 else [1, 0, 0]
        for si, sn in enumerate(parsed["samples"]):
            t[9 + si] = ("|".join(map(str, e)) + ":61") if si == 1 else t[9 + si] + ":."
        lines.append("\t".join(t))
    with open(p2["vcf"], "w") as f:
        f.write("\n".join(lines) + "\n")
    files["P2"] = p2
    # diploid input with two read-disconnected blocks (8 and 9 SNVs) and reads that are NOT exact copies: at the fourth
    # variant of each block nearly all reads show the reference allele (block 1: two reads of the ALT haplotype show
    # ALT; block 2: two reads of the REF haplotype do), while the VCF says 0/1 - polyphase has to force the genotype
    # onto the threaded haplotypes, differently in the two blocks
    files["E"] = forced_world(os.path.join(d, "E"), seed + 7, E_SPEC)
    # haplotag inputs and outputs for the downstream commands
    from whatshap.cli.haplotag import run_haplotag

    tagged = os.path.join(A, "tagged.bam")
    lst = os.path.join(A, "haplotags.tsv")
    run_haplotag(files["A_phased_gz"], pa["bam"], output=tagged, reference=pa["fasta"], haplotag_list=lst)
    pysam.index(tagged)
    files["A_tagged"] = tagged
    files["A_list"] = lst
    from whatshap.cli.unphase import run_unphase

    un = os.path.join(A, "unphased.vcf")
    run_unphase(files["A_phased"], un)
    files["A_unphased_gz"] = bgzip(un)
    # three single-sample files with different sample names for compare --ignore-sample-name
    cmp_files = []
    for i, n in enumerate(names):
        cmp_files.append(single_sample_copy(files["A_phased"], os.path.join(A, f"cmp{i}.vcf"), i, n))
    files["cmp"] = cmp_files
    # unaligned reads for split
    ub = os.path.join(A, "unaligned.bam")
    hdr = pysam.AlignmentHeader.from_dict({"HD": {"VN": "1.6", "SO": "unknown"}})
    with pysam.AlignmentFile(pa["bam"]) as f, pysam.AlignmentFile(ub, "wb", header=hdr) as o:
        for s in f:
            u = pysam.AlignedSegment(hdr)
            u.query_name = s.query_name
            u.flag = 4
            u.query_sequence = s.query_sequence
            u.query_qualities = s.query_qualities
            o.write(u)
    files["A_unaligned"] = ub
    # a haplotype list in which three phase sets tie for the largest block of chr1 (and two on chr2)
    with pysam.AlignmentFile(ub, check_sq=False) as f:
        rn = sorted({s.query_name for s in f.fetch(until_eof=True)})
    tl = os.path.join(A, "tie_list.tsv")
    with open(tl, "w") as f:
        f.write("#readname\thaplotype\tphaseset\tchromosome\n")
        for i, n in enumerate(rn[:10]):
            chrom = "chr1" if i < 6 else "chr2"
            ps = (100, 200, 300)[i // 2] if i < 6 else (700, 800)[(i - 6) // 2]
            f.write(f"{n}\tH{1 + i % 2}\t{ps}\t{chrom}\n")
        for n in rn[10:]:
            f.write(f"{n}\tnone\tnone\tchr1\n")
    files["A_tie_list"] = tl
    files["L"] = linked_world(os.path.join(d, "L"), seed + 3)
    # the same VCF with four predefined INFO keys used but not declared (the header is completed on output)
    und = os.path.join(A, "undeclared.vcf")
    with open(pa["vcf"]) as f, open(und, "w") as o:
        for line in f:
            t = line.rstrip("\n").split("\t")
            if not line.startswith("#") and len(t) > 8:
                t[7] = "AC=1;AN=2;SVLEN=1;SVTYPE=SNV"
            o.write("\t".join(t) + "\n")
    files["A_undeclared"] = und
    # the same VCF claiming 1/1 for the first sample at the first variant of every chromosome (the reads show 0/1):
    # gives the changed-genotype list of a --distrust-genotypes run something to list
    con = os.path.join(A, "contradicted.vcf")
    seen_chrom = set()
    with open(pa["vcf"]) as f, open(con, "w") as o:
        for line in f:
            t = line.rstrip("\n").split("\t")
            if not line.startswith("#") and len(t) > 9 and t[0] not in seen_chrom:
                seen_chrom.add(t[0])
                t[9] = "1/1"
            o.write("\t".join(t) + "\n")
    files["A_contradicted"] = con
    return files


def linked_world(L, seed):
    """haplotag input with barcoded reads: per barcode one read on haplotype 1 of the first phase set and one on
    haplotype 2 of the second, so that the read cloud's best score is shared by two phase sets"""
    os.makedirs(L)
    seq = synth.make_reference(seed, 400)
    pos = [60, 100, 200, 240]
    variants = [synth.make_variant(seq, q, "SNV") for q in pos]
    vcf = synth.VcfText(["S1"], contigs=[("chrL", len(seq))], formats=["GT", "PS"])
    for i, v in enumerate(variants):
        vcf.add("chrL", v.pos, v.ref, v.alts, [{"GT": "0|1", "PS": "61" if i < 2 else "201"}], fmt=["GT", "PS"])
    vp = bgzip(vcf.write(os.path.join(L, "phased.vcf")))
    fasta = synth.write_fasta(os.path.join(L, "ref.fa"), [("chrL", seq)])
    alns = []
    for b in range(8):
        q1, c1 = synth.hap_read(seq, variants, [0, 0, 0, 0], 40 + b, 120 + b)
        q2, c2 = synth.hap_read(seq, variants, [1, 1, 1, 1], 180 + b, 260 + b)
        alns.append({"name": f"m{b}_left", "chrom": "chrL", "start": 40 + b, "cigar": c1, "seq": q1, "rg": "rg1", "tags": [("BX", f"bc{b}", "Z")]})
        alns.append({"name": f"m{b}_right", "chrom": "chrL", "start": 180 + b, "cigar": c2, "seq": q2, "rg": "rg1", "tags": [("BX", f"bc{b}", "Z")]})
    bam = os.path.join(L, "linked.bam")
    synth.write_bam(bam, [("chrL", len(seq))], alns, read_groups=[{"ID": "rg1", "SM": "S1"}])
    return {"vcf": vp, "fasta": fasta, "bam": bam}


def scenarios(files, names):
    a = files["A"]
    f = files["F"]
    p = files["P"]
    chroms = ["chr1", "chr2"]
    sc = [
        {"id": "phase", "cmd": "phase", "names": names, "chroms": chroms, "args": {"inputs": [a["bam"]], "vcf": a["vcf"], "fasta": a["fasta"]}},
        {"id": "phase-HP", "cmd": "phase", "names": names, "chroms": chroms, "args": {"inputs": [a["bam"]], "vcf": a["vcf"], "fasta": a["fasta"], "kw": {"tag": "HP"}}},
        {"id": "phase-undeclared-info", "cmd": "phase", "names": ["AC", "AN", "SVLEN", "SVTYPE"], "chroms": chroms, "args": {"inputs": [a["bam"]], "vcf": files["A_undeclared"], "fasta": a["fasta"]}},
        {"id": "genotype-undeclared-info", "cmd": "genotype", "names": ["AC", "AN", "SVLEN", "SVTYPE"], "chroms": chroms, "args": {"inputs": [a["bam"]], "vcf": files["A_undeclared"], "fasta": a["fasta"]}},
        {"id": "phase-distrust-lists", "cmd": "phase", "names": names, "chroms": chroms, "args": {"inputs": [a["bam"]], "vcf": files["A_contradicted"], "fasta": a["fasta"], "gtlist": True, "kw": {"distrust_genotypes": True, "include_homozygous": True}}},
        {"id": "phase-ped", "cmd": "phase", "names": files["F_names"], "args": {"inputs": [f["bam"]], "vcf": f["vcf"], "fasta": f["fasta"], "ped": files["F_ped"]}},
        {"id": "phase-use-ped-samples", "cmd": "phase", "names": ["dad", "mom", "kid"], "args": {"inputs": [f["bam"]], "vcf": f["vcf"], "fasta": f["fasta"], "ped": files["F_ped"], "kw": {"use_ped_samples": True}}},
        {"id": "phase-use-ped-samples-distrust-lists", "cmd": "phase", "names": ["dad", "mom", "kid"], "args": {"inputs": [files["F2"]["bam"]], "vcf": files["F2"]["vcf"], "fasta": files["F2"]["fasta"], "ped": files["F_ped"], "gtlist": True, "kw": {"use_ped_samples": True, "distrust_genotypes": True, "include_homozygous": True}}},
        {"id": "genotype", "cmd": "genotype", "names": names, "chroms": chroms, "args": {"inputs": [a["bam"]], "vcf": a["vcf"], "fasta": a["fasta"]}},
        {"id": "genotype-ped", "cmd": "genotype", "names": files["F_names"], "args": {"inputs": [f["bam"]], "vcf": f["vcf"], "fasta": f["fasta"], "ped": files["F_ped"]}},
        {"id": "genotype-use-ped-samples", "cmd": "genotype", "names": ["dad", "mom", "kid"], "args": {"inputs": [f["bam"]], "vcf": f["vcf"], "fasta": f["fasta"], "ped": files["F_ped"], "kw": {"use_ped_samples": True}}},
        {"id": "polyphase", "cmd": "polyphase", "names": names, "args": {"inputs": [p["bam"]], "vcf": p["vcf"], "fasta": p["fasta"], "ploidy": 3}},
        {"id": "polyphase-prephasing-one-sample", "cmd": "polyphase", "names": names, "args": {"inputs": [files["P2"]["bam"]], "vcf": files["P2"]["vcf"], "fasta": files["P2"]["fasta"], "ploidy": 3, "kw": {"use_prephasing": True, "block_cut_sensitivity": 1}}},
        {"id": "polyphase-forced-genotypes", "cmd": "polyphase", "names": names, "args": {"inputs": [files["E"]["bam"]], "vcf": files["E"]["vcf"], "fasta": files["E"]["fasta"], "ploidy": 2}},
        {"id": "haplotag", "cmd": "haplotag", "names": names, "args": {"vcf": files["A_phased_gz"], "bam": a["bam"], "fasta": a["fasta"]}},
        {"id": "haplotag-regions", "cmd": "haplotag", "names": names, "chroms": chroms, "args": {"vcf": files["A_phased_gz"], "bam": a["bam"], "fasta": a["fasta"], "kw": {"regions": ["chr2", "chr1:1-150", "chr1:150-400"]}}},
        {"id": "haplotag-irg-two-samples", "cmd": "haplotag", "names": names[:2], "args": {"vcf": files["A_phased_gz"], "bam": a["bam"], "fasta": a["fasta"], "kw": {"ignore_read_groups": True, "given_samples": list(names[:2])}}},
        {"id": "haplotag-linked", "cmd": "haplotag", "names": names, "args": {"vcf": files["L"]["vcf"], "bam": files["L"]["bam"], "fasta": files["L"]["fasta"]}},
        {"id": "haplotagphase", "cmd": "haplotagphase", "names": names, "args": {"vcf": files["A_unphased_gz"], "bam": files["A_tagged"], "fasta": a["fasta"]}},
        {"id": "compare-multiway", "cmd": "compare", "names": names, "args": {"vcfs": files["cmp"], "kw": {"ignore_sample_name": True}}},
        {"id": "stats", "cmd": "stats", "names": names, "args": {"vcf": files["A_phased"]}},
        {"id": "stats-indexed-chromosomes", "cmd": "stats", "names": chroms, "args": {"vcf": files["A_phased_gz"], "kw": {"chromosomes": ["chr2", "chr1"]}}},
        {"id": "split", "cmd": "split", "names": names, "args": {"bam": files["A_unaligned"], "list": files["A_list"]}},
        {"id": "split-largest-block-tie", "cmd": "split", "names": ["100", "200", "300"], "args": {"bam": files["A_unaligned"], "list": files["A_tie_list"], "kw": {"only_largest_block": True}}},
        {"id": "find-snv-candidates", "cmd": "find_snv", "names": names, "chroms": chroms, "args": {"bam": a["bam"], "fasta": a["fasta"], "kw": {"minabs": 1, "minrel": 0.1, "multi_allelics": True}}},
        {"id": "unphase", "cmd": "unphase", "names": names, "args": {"vcf": files["A_phased"]}},
    ]
    return sc


# --------------------------------------------------------------------------- running children
def digest(outdir):
    out = {}
    for fn in sorted(os.listdir(outdir)):
        path = os.path.join(outdir, fn)
        if os.path.isdir(path):
            continue
        if fn.endswith(".bam") or fn.endswith(".bam.rep1") or fn.endswith(".bam.first"):
            recs = synth.read_bam(path)
            with pysam.AlignmentFile(path, check_sq=False) as f:
                hd = f.header.to_dict()
            for pg in hd.get("PG", []):
                pg.pop("CL", None)
            out[fn] = json.dumps([recs, hd], sort_keys=True, default=str)
        elif ".bai" in fn:
            continue
        else:
            with open(path, "rb") as f:
                txt = f.read().decode(errors="replace")
            out[fn] = "\n".join(l for l in txt.splitlines() if not l.startswith("##commandline") and not l.startswith("##fileDate"))
    return out


def run_child(sc, hashseed, overlay, outdir, repeat=1):
    s = dict(sc, outdir=outdir, repeat=repeat)
    os.makedirs(outdir, exist_ok=True)
    sj = os.path.join(outdir, "scenario.json")
    with open(sj, "w") as f:
        json.dump(s, f)
    env = dict(os.environ, PYTHONHASHSEED=str(hashseed), PYTHONPATH=os.pathsep.join([str(overlay), VERIF]), WHATSHAP_VERIF_TRACE="")
    env.pop("WHATSHAP_VERIF_TRACE")
    r = subprocess.run([sys.executable, "-m", "mc.c16_child", sj], cwd=VERIF, env=env, capture_output=True, text=True)
    os.unlink(sj)
    try:
        info = json.loads(r.stdout.strip().splitlines()[-1])
    except Exception:
        info = {"orders": {}, "error": f"child died: rc={r.returncode} {r.stderr[-400:]}"}
    return info, digest(outdir)


# --------------------------------------------------------------------------- controlled pool
class ControlledPool:
    """Stand-in for multiprocessing.Pool: forks real worker processes, pickles arguments and
    results, and executes exactly the job -> worker assignment given in ControlledPool.assignment
    (jobs of one worker run in submission order, as with the pool's FIFO task queue)."""

    assignment = None
    last_jobs = 0

    def __init__(self, processes=None):
        self.processes = processes
        self.jobs = []
        self.results = None

    def __enter__(self):
        return self

    def __exit__(self, *a):
        return False

    def apply_async(self, fn, args=()):
        self.jobs.append(pickle.dumps((fn, args)))
        idx = len(self.jobs) - 1
        pool = self

        class Handle:
            def get(self_inner):
                if pool.results is None:
                    pool._run()
                ok, val = pool.results[idx]
                if not ok:
                    raise RuntimeError(val)
                return val

        return Handle()

    def _run(self):
        n = len(self.jobs)
        ControlledPool.last_jobs = n
        assign = list(ControlledPool.assignment or [])
        assign = [(assign[i] if i < len(assign) else i % max(1, self.processes or 1)) for i in range(n)]
        workers = sorted(set(assign))
        pipes = {}
        for w in workers:
            r, wfd = os.pipe()
            pid = os.fork()
            if pid == 0:
                os.close(r)
                out = []
                for i in range(n):
                    if assign[i] != w:
                        continue
                    try:
                        fn, args = pickle.loads(self.jobs[i])
                        out.append((i, True, fn(*args)))
                    except BaseException as e:  # noqa
                        out.append((i, False, f"{type(e).__name__}: {e}"))
                with os.fdopen(wfd, "wb") as f:
                    pickle.dump(out, f)
                os._exit(0)
            os.close(wfd)
            pipes[w] = (pid, r)
        self.results = [None] * n
        for w, (pid, r) in pipes.items():
            with os.fdopen(r, "rb") as f:
                data = f.read()
            os.waitpid(pid, 0)
            for i, ok, val in pickle.loads(data):
                self.results[i] = (ok, val)


def restricted_growth(n, kmax):
    """all assignments of n jobs to at most kmax interchangeable workers"""

    def rec(prefix, used):
        if len(prefix) == n:
            yield list(prefix)
            return
        for w in range(min(used + 1, kmax)):
            yield from rec(prefix + [w], max(used, w + 1))

    yield from rec([], 0)


def run(rep, tier, seed, only=None):
    T = tier == "thorough"
    overlay = build.ensure()
    names = ["NA12878", "HG002", "sampleX"] + (["zz-4"] if T else [])
    sc_root = synth.Scratch("c16")
    d = sc_root.path
    viols = []
    samples = []
    schedules = runs = 0
    try:
        files = prepare(d, seed + 161, names)
        scs = [s for s in scenarios(files, names) if not only or s["id"] in only]
        # ---- 1. hash seeds until every order of the name set has been seen
        need = math.factorial(len(names))
        need3 = math.factorial(3)
        max_seeds = 400 if T else 120
        seen_orders = {s["id"]: set() for s in scs}
        baseline = {}
        hs = 0
        jobs = []
        realised = {}
        with ThreadPoolExecutor(16) as ex:
            while hs < max_seeds:
                batch = list(range(hs, hs + 16))
                hs += 16
                futs = {}
                for s in scs:
                    target = math.factorial(len(s["names"]))
                    if len(seen_orders[s["id"]]) >= target and s["id"] in baseline:
                        continue
                    for h in batch:
                        futs[(s["id"], h)] = ex.submit(run_child, s, h, overlay, os.path.join(d, "runs", s["id"], str(h)))
                if not futs:
                    break
                for (sid, h), fu in sorted(futs.items(), key=lambda kv: (kv[0][0], kv[0][1])):
                    info, dg = fu.result()
                    runs += 1
                    order = tuple(info["orders"].get("frozenset", []))
                    new = order not in seen_orders[sid]
                    seen_orders[sid].add(order)
                    if new:
                        schedules += 1
                    if info.get("error"):
                        viols.append(V("error", f"{sid} under PYTHONHASHSEED={h} failed: {info['error']}", {"scenario": sid, "hashseed": h}))
                        continue
                    if sid not in baseline:
                        baseline[sid] = (h, dg)
                        if len(samples) < 6:
                            samples.append({"scenario": sid, "hashseed": h, "order_of_name_set": list(order)})
                        continue
                    b_h, b_dg = baseline[sid]
                    if dg != b_dg:
                        diff = [fn for fn in set(dg) | set(b_dg) if dg.get(fn) != b_dg.get(fn)]
                        fn = sorted(diff)[0]
                        la, lb = (b_dg.get(fn) or "").splitlines(), (dg.get(fn) or "").splitlines()
                        first = next(((x, y) for x, y in zip(la, lb) if x != y), (len(la), len(lb)))
                        viols.append(
                            V(
                                f"hash-seed:{sid}",
                                f"{sid}: output file {fn} differs between PYTHONHASHSEED={b_h} and {h} (name set order {list(order)}): {str(first)[:300]}",
                                {"scenario": sid, "hashseeds": [b_h, h]},
                            )
                        )
        coverage_orders = {sid: len(v) for sid, v in seen_orders.items()}
        incomplete = [sid for sid in seen_orders for s in scs if s["id"] == sid and len(seen_orders[sid]) < math.factorial(len(s["names"]))]
        # ---- 3. repetition in one interpreter and --output-threads
        for s in scs:
            info, dg = run_child(s, 0, overlay, os.path.join(d, "rep", s["id"]), repeat=2)
            runs += 1
            if info.get("error"):
                viols.append(V("error", f"{s['id']} repeated failed: {info['error']}", {"scenario": s["id"], "repeat": 2}))
                continue
            for fn, content in dg.items():
                if fn.endswith(".first"):
                    if dg.get(fn[:-6]) != content:
                        viols.append(V(f"repetition:{s['id']}", f"{s['id']}: second run in the same interpreter (same output paths) writes a different {fn[:-6]}", {"scenario": s["id"], "repeat": 2}))
        # ---- 3b. every scenario, then other commands on the same files with other options, then every scenario again -
        # all in ONE interpreter: what a command writes must not depend on what ran before it
        if not only or "sequence" in only:
            a_, f_, p_ = files["A"], files["F"], files["P"]
            disturb = [
                {"cmd": "polyphase", "tag": "d_polyA", "args": {"inputs": [a_["bam"]], "vcf": a_["vcf"], "fasta": a_["fasta"], "ploidy": 2, "kw": {"include_haploid_sets": True}}},
                {"cmd": "polyphase", "tag": "d_polyU", "args": {"inputs": [a_["bam"]], "vcf": files["A_undeclared"], "fasta": a_["fasta"], "ploidy": 2, "kw": {"include_haploid_sets": True}}},
                {"cmd": "polyphase", "tag": "d_polyF", "args": {"inputs": [f_["bam"]], "vcf": f_["vcf"], "fasta": f_["fasta"], "ploidy": 2, "kw": {"include_haploid_sets": True}}},
                {"cmd": "polyphase", "tag": "d_polyP", "args": {"inputs": [p_["bam"]], "vcf": p_["vcf"], "fasta": p_["fasta"], "ploidy": 3, "kw": {"include_haploid_sets": True, "block_cut_sensitivity": 0}}},
                {"cmd": "phase", "tag": "d_phaseA", "args": {"inputs": [a_["bam"]], "vcf": a_["vcf"], "fasta": a_["fasta"], "kw": {"tag": "HP", "distrust_genotypes": True, "include_homozygous": True}}},
            ]
            allsc = scenarios(files, names)
            seq = [dict(cmd=s["cmd"], args=s["args"], tag="p1_" + s["id"]) for s in allsc] + disturb + [dict(cmd=s["cmd"], args=s["args"], tag="p2_" + s["id"]) for s in allsc]
            sd = os.path.join(d, "sequence")
            info, _ = run_child({"id": "sequence", "names": names, "sequence": seq}, 0, overlay, sd)
            runs += 1
            schedules += 1
            if info.get("error"):
                viols.append(V("error", f"command sequence in one interpreter failed: {info['error']}", {"scenario": "sequence"}))
            else:
                for s in allsc:
                    d1, d2 = digest(os.path.join(sd, "p1_" + s["id"])), digest(os.path.join(sd, "p2_" + s["id"]))
                    if d1 != d2:
                        fn = next(k for k in d1 if d1.get(k) != d2.get(k))
                        l1, l2 = d1[fn].splitlines(), (d2.get(fn) or "").splitlines()
                        first = next(((x, y) for x, y in zip(l1, l2) if x != y), (len(l1), len(l2)))
                        viols.append(V(f"history:{s['id']}", f"{s['id']}: {fn} differs when the same command runs again after other commands in the same interpreter: {str(first)[:300]}", {"scenario": "sequence"}))
        hsc = [s for s in scs if s["id"] == "haplotag"]
        if hsc:
            base = None
            for th in (1, 2, 4):
                s2 = json.loads(json.dumps(hsc[0]))
                s2["args"]["kw"] = {"output_threads": th}
                info, dg = run_child(s2, 0, overlay, os.path.join(d, "threads", str(th)))
                runs += 1
                schedules += 1
                if base is None:
                    base = dg
                elif dg != base:
                    viols.append(V("output-threads", f"haplotag --output-threads {th} differs from --output-threads 1", {"scenario": "haplotag", "output_threads": th}))
        # polyphase thread counts, each in a fresh interpreter (state kept in the process between blocks is inherited
        # by forked workers in the in-process comparison below, so that one cannot see it)
        for psc in [s for s in scs if s["id"] in ("polyphase", "polyphase-forced-genotypes", "polyphase-prephasing-one-sample")]:
            base = None
            for th in (1, 2, 3):
                s2 = json.loads(json.dumps(psc))
                s2["args"].setdefault("kw", {})["threads"] = th
                info, dg = run_child(s2, 0, overlay, os.path.join(d, "pthreads", psc["id"], str(th)))
                runs += 1
                schedules += 1
                if info.get("error"):
                    viols.append(V("error", f"{psc['id']} --threads {th} failed: {info['error']}", {"scenario": psc["id"], "threads": th}))
                elif base is None:
                    base = dg
                elif dg != base:
                    fn = next(k for k in base if base.get(k) != dg.get(k))
                    first = next(((x, y) for x, y in zip(base[fn].splitlines(), (dg.get(fn) or "").splitlines()) if x != y), None)
                    viols.append(V("threads-fresh-process", f"{psc['id']}: --threads {th} in a fresh interpreter differs from --threads 1: {str(first)[:300]}", {"scenario": psc["id"], "threads": th}))
        # ---- 2. polyphase worker schedules
        if not only or "polyphase" in only:
            import whatshap.polyphase.algorithm as alg
            from whatshap.cli.polyphase import run_polyphase

            P2 = os.path.join(d, "P2")
            os.makedirs(P2)
            pp = pw.materialize(poly_world(["S1"], seed + 9, gaps=True, nvar=8 if not T else 10), P2)

            vcf_in = [pp["vcf"]]
            extra = [{}]

            def poly(threads, tag):
                out = os.path.join(P2, f"out_{tag}.vcf")
                kw = {k: v for k, v in extra[0].items() if not k.startswith("_")}
                with open(out, "w") as f:
                    if "_bam" in extra[0]:
                        run_polyphase([extra[0]["_bam"]], vcf_in[0], ploidy=extra[0]["_ploidy"], output=f, write_command_line_header=False, threads=threads, **kw)
                    else:
                        run_polyphase([pp["bam"]], vcf_in[0], ploidy=3, reference=pp["fasta"], output=f, write_command_line_header=False, threads=threads, **kw)
                return open(out).read()

            ref = poly(1, "t1")
            # second configuration: the phased output as input with --use-prephasing (blocks carry a pre-phasing)
            pre_vcf = os.path.join(P2, "prephased.vcf")
            with open(pre_vcf, "w") as f:
                f.write(ref)
            configs = [(pp["vcf"], {}, ref)]
            vcf_in[0], extra[0] = pre_vcf, {"use_prephasing": True, "block_cut_sensitivity": 1}
            configs.append((pre_vcf, dict(extra[0]), poly(1, "t1pre")))
            vcf_in[0], extra[0] = pp["vcf"], {}
            # third configuration: the repository's hand-made instance in which pre-phasings bridge blocks
            rd = os.path.join(str(build.REPO), "tests", "data")
            if os.path.exists(os.path.join(rd, "polyploid.cuts.vcf")) and os.path.exists(os.path.join(rd, "polyploid.cuts.bam")):
                for B in (0, 1, 4):
                    cuts_cfg = {"use_prephasing": True, "block_cut_sensitivity": B, "ignore_read_groups": True, "_ploidy": 4, "_bam": os.path.join(rd, "polyploid.cuts.bam")}
                    configs.append((os.path.join(rd, "polyploid.cuts.vcf"), cuts_cfg, None))
                # the same instance with the first five variants left without pre-phasing (the pre-phased variants are a
                # proper subset of the phasable ones)
                part = os.path.join(P2, "cuts_partly_prephased.vcf")
                nrec = 0
                with open(os.path.join(rd, "polyploid.cuts.vcf")) as fi, open(part, "w") as fo:
                    for line in fi:
                        if not line.startswith("#"):
                            nrec += 1
                            if nrec <= 5:
                                t = line.rstrip("\n").split("\t")
                                t[9] = "/".join(sorted(t[9].split("|")))
                                line = "\t".join(t) + "\n"
                        fo.write(line)
                for B in (0, 1, 3):
                    configs.append((part, {"use_prephasing": True, "block_cut_sensitivity": B, "ignore_read_groups": True, "_ploidy": 4, "_bam": os.path.join(rd, "polyploid.cuts.bam")}, None))
            # fourth configuration: two blocks whose threaded haplotypes have to be forced onto the genotype (see prepare)
            configs.append((files["E"]["vcf"], {"_ploidy": 2, "_bam": files["E"]["bam"]}, None))
            stock = alg.Pool
            for cvcf, cextra, cref in configs:
                vcf_in[0], extra[0] = cvcf, cextra
                if cref is None:
                    cref = poly(1, "t1cfg")
                for th in (2, 4):
                    runs += 1
                    if poly(th, f"stock{th}") != cref:
                        viols.append(V("threads", f"polyphase --threads {th} (stock Pool, options {cextra}) differs from --threads 1", {"scenario": "polyphase", "threads": th, "options": cextra}))
                alg.Pool = ControlledPool
                try:
                    ControlledPool.assignment = [0]
                    poly(2, "probe")
                    nb = ControlledPool.last_jobs
                    for w in (2, 3):
                        for asg in restricted_growth(nb, w):
                            ControlledPool.assignment = asg
                            got = poly(w, "ctl")
                            runs += 1
                            schedules += 1
                            if got != cref:
                                viols.append(V("worker-schedule", f"polyphase (options {cextra}) with job->worker assignment {asg} differs from --threads 1", {"scenario": "polyphase", "assignment": asg, "options": cextra}))
                                break
                    samples.append({"scenario": "polyphase", "options": cextra, "jobs": nb, "assignment": asg})
                finally:
                    alg.Pool = stock
    finally:
        sc_root.close()
    rep.add_violations(viols)
    rep.coverage.update(
        states=schedules,
        transitions=runs,
        traces_validated_against_impl=runs,
        samples=samples,
        name_set_orders_realised=coverage_orders,
        name_set_orders_incomplete=incomplete,
        exhaustive=not incomplete,
        rule="a state is a distinct schedule (iteration order of the sample-name set realised by a hash seed; job->worker assignment up to worker symmetry; "
        "thread-count option value); a transition is one complete run of the real subcommand in a fresh interpreter (or with the controlled pool) whose outputs are compared with the first run",
    )
    rep.assumptions += [
        "hash randomisation is abstracted to the iteration order of the sample-name set; seeds are enumerated until all n! orders occurred (measured in the child)",
        "interleavings inside htslib's compression threads (--output-threads) are outside the harness: only the option values are enumerated",
    ]
    if incomplete:
        rep.notes.append(f"not every name-set order was realised for {incomplete} within the seed budget")


def V(clause, detail, inst):
    return {"clause": clause, "signature": "c16:" + clause, "detail": detail, "instance": inst}


def replay(v):
    # re-run the whole (small) check restricted to the scenario of the violation
    from mc.report import Report

    rep = Report("C16", "quick", 0, LEVEL)
    sid = v["instance"].get("scenario")
    run(rep, "quick", int(os.environ.get("VERIF_SEED", "0")), only=[sid] if sid else None)
    return [x for x in rep.violations if x["signature"] == v.get("signature")] or rep.violations
