"""C05  Pedigree phasing is Mendelian-consistent and ordered paternal|maternal.

Every family genotype combination of a bounded alphabet (trios: all 64 combinations per variant
over {0/0, 0/1, 1/1, ./.} for k <= 2, restricted for k = 3; two-child quartets) x read support x
recombination model x --no-genetic-haplotyping is phased by run_whatshap with a PED file; the
output genotypes, the traced transmission vector and the recombination list are judged.
"""
import itertools
import os

from mc import par, phaseworld as pw, synth
from mc.par import Result

LEVEL = "exploration"

GT = ["0/0", "0/1", "1/1", "./."]
ALLELES = {"0/0": (0, 0), "0/1": (0, 1), "1/1": (1, 1), "./.": None}


def consistent(f, m, c):
    if None in (f, m, c):
        return False
    return any(c == tuple(sorted((a, b))) for a in f for b in m)


def family_haps(gts, nchildren, recomb_at=None, flip_second=False, recomb_child=None):
    """gts[variant] = (father, mother, child[, child2]) genotype strings.
    Returns per member a list of hap entries, choosing parental orientations so that each child is
    (paternal allele | maternal allele) with at most one paternal recombination at recomb_at."""
    k = len(gts)
    members = 2 + nchildren
    haps = [[None] * k for _ in range(members)]
    for i, g in enumerate(gts):
        al = [ALLELES[x] for x in g]
        side, at = ("f", recomb_at) if not isinstance(recomb_at, (tuple, list)) else recomb_at
        tf = 0 if (at is None or side != "f" or i < at) else 1
        tm = 1 if (at is None or side != "m" or i < at) else 0
        best = None
        for fo in ((0, 1), (1, 0)):
            for mo in ((0, 1), (1, 0)):
                F = None if al[0] is None else (al[0][fo[0]], al[0][fo[1]])
                M = None if al[1] is None else (al[1][mo[0]], al[1][mo[1]])
                ok = True
                kids = []
                for c in range(nchildren):
                    cg = al[2 + c]
                    if cg is None or F is None or M is None:
                        kids.append(None if cg is None else cg)
                        continue
                    want = (F[tf], M[tm])
                    if recomb_child is not None and c != recomb_child:
                        want = (F[0], M[1])  # only one of the children carries the recombination
                    if flip_second and c == 1:
                        want = (F[1 - tf], M[tm])  # the second child inherits the father's other haplotype
                    if tuple(sorted(want)) != cg:
                        ok = False
                        kids.append(cg)
                    else:
                        kids.append(want)
                if ok or best is None:
                    best = (F, M, kids)
                    if ok:
                        break
            else:
                continue
            break
        F, M, kids = best
        for idx, e in enumerate([F, M] + kids):
            if e is None:
                haps[idx][i] = "miss"
            elif e[0] == e[1]:
                haps[idx][i] = "hom0" if e[0] == 0 else "hom1"
            else:
                haps[idx][i] = list(e)
    return haps


def worlds(tier):
    T = tier == "thorough"
    seed = int(os.environ.get("VERIF_SEED", "0")) + 51
    trio_names = ["F", "M", "C"]
    # k = 1: all 64 combinations, all read supports, both genetic-haplotyping settings
    combos = list(itertools.product(GT, repeat=3))
    for g in combos:
        for support in ("none", "child", "parents", "all"):
            for gh in (True, False):
                yield mk(seed, trio_names, [g], support, None, dict(genetic_haplotyping=gh))
    # k = 2: all 4096 combinations
    for g1 in combos:
        for g2 in combos:
            for support in ("none", "all") + (("child", "parents") if T else ()):
                yield mk(seed, trio_names, [g1, g2], support, None, {})
            if T:
                yield mk(seed, trio_names, [g1, g2], "all", None, dict(genetic_haplotyping=False))
            # a PED record naming an individual that is not in the VCF, listed before the trio; an unrelated sample in
            # the VCF whose genotype is missing at the first variant
            yield mk(seed, trio_names, [g1, g2], "none", None, {}, absent_first=True)
            yield mk(seed, trio_names, [g1, g2], "none", None, {}, bystander=True)
            if T or (combos.index(g1) + combos.index(g2)) % 3 == 0:
                yield mk(seed, trio_names, [g1, g2], "all", None, {}, absent_first=True, bystander=True)
    # k = 3: at most one non-heterozygous member per variant; with a paternal recombination
    per_variant = [("0/1", "0/1", "0/1")]
    for member in range(3):
        for x in ("0/0", "1/1", "./."):
            g = ["0/1"] * 3
            g[member] = x
            per_variant.append(tuple(g))
    for gs in itertools.product(per_variant, repeat=3):
        for support in ("all", "child") + (("none", "parents") if T else ()):
            for recomb in (None, 2, ("m", 2)) + ((1, ("m", 1)) if T else ()):
                if recomb is not None and support != "all":
                    continue
                opts = {}
                if recomb is not None:
                    opts["recombrate"] = 200000.0
                yield mk(seed, trio_names, list(gs), support, recomb, opts)
                if recomb is None and support == "all" and (T or per_variant.index(gs[0]) % 2 == 0):
                    # HP encoding, unphased input genotypes spelled 1/0 (all / every other variant)
                    for spelling in ("desc", "mixed"):
                        inst = mk(seed, trio_names, list(gs), support, recomb, dict(opts, tag="HP"))
                        inst["world"]["gt_spelling"] = spelling
                        yield inst
        if T:
            yield mk(seed, trio_names, list(gs), "all", None, dict(genmap=True))
    # genetic map on a subset
    for gs in itertools.product(per_variant[:4], repeat=3):
        yield mk(seed, trio_names, list(gs), "all", None, dict(genmap=True))
    # quartet (two children), k <= 2
    qnames = ["F", "M", "C", "D"]
    qv = [("0/1",) * 4]
    for member in range(4):
        for x in ("0/0", "1/1", "./."):
            g = ["0/1"] * 4
            g[member] = x
            qv.append(tuple(g))
    qv += [("0/0", "0/1", "0/1", "0/0"), ("0/1", "1/1", "1/1", "0/1"), ("0/0", "1/1", "0/1", "0/1"), ("0/0", "0/0", "0/1", "0/0")]
    # (both orders of the two PED records: the family representative is the smallest sample name,
    # which a later record may introduce)
    for g in qv:
        for support in ("none", "all"):
            for rev in (False, True):
                yield mk(seed, qnames, [g], support, None, {}, ped_reversed=rev)
    # two children that inherit different paternal haplotypes (their transmissions differ), both PED record orders
    for ga, gb in itertools.product([("0/1", "0/0", "0/0", "0/1"), ("0/1", "1/1", "0/1", "1/1"), ("0/1", "0/0", "0/1", "0/0"), ("0/1", "1/1", "1/1", "0/1")], repeat=2):
        for k_ in (2, 3):
            for rev in (False, True):
                yield mk(seed, qnames, [ga, gb] + ([ga] if k_ == 3 else []), "all", None, {}, ped_reversed=rev, flip_second=True)
    # a recombination in the paternal (maternal) transmission of ONE of the two children, both PED record orders
    same = ("0/1", "0/0", "0/1", "0/1")
    for rc, diff in ((1, ("0/1", "0/0", "0/1", "0/0")), (0, ("0/1", "0/0", "0/0", "0/1"))):
        for rev in (False, True):
            yield mk(seed, qnames, [same, same, diff], "all", 2, {"recombrate": 200000.0}, ped_reversed=rev, recomb_child=rc)
            yield mk(seed, qnames, [same, same, diff, diff], "all", 2, {"recombrate": 200000.0}, ped_reversed=rev, recomb_child=rc)
    for g1 in qv:
        for g2 in qv:
            for support in ("all", "none") + (("child",) if T else ()):
                for rev in (False, True):
                    if rev and support == "all" and not T and (qv.index(g1) + qv.index(g2)) % 2:
                        continue
                    yield mk(seed, qnames, [g1, g2], support, None, {}, ped_reversed=rev)


def mk(seed, names, gts, support, recomb, opts, ped_reversed=False, absent_first=False, bystander=False, flip_second=False, recomb_child=None):
    k = len(gts)
    nchildren = len(names) - 2
    haps = family_haps(gts, nchildren, recomb, flip_second=flip_second, recomb_child=recomb_child)
    vs = [{"pos": 60 + 40 * i, "kind": "SNV", "len": 1} for i in range(k)]
    world = {"seed": seed, "chroms": [{"name": "chrA", "length": 60 + 40 * k + 60, "variants": vs}], "samples": list(names), "haps": {n: {"chrA": haps[i]} for i, n in enumerate(names)}, "reads": [], "gts": [list(g) for g in gts]}
    who = {"none": [], "child": names[2:], "parents": names[:2], "all": names}[support]
    for n in who:
        for h in (0, 1):
            if k >= 2:
                world["reads"].append({"sample": n, "chrom": "chrA", "hap": h, "segs": [[0, k - 1, 6, 6]], "n": 3 if recomb is not None else 1})
    trios = [(c, names[0], names[1]) for c in names[2:]]
    if ped_reversed:
        trios = trios[::-1]
    if absent_first:
        trios = [("sis", names[0], names[1])] + trios
    if bystander:
        world["samples"] = list(names) + ["X"]
        world["bystanders"] = ["X"]
        world["haps"]["X"] = {"chrA": ["miss"] + [[0, 1]] * (k - 1)}
    return {"world": world, "trios": [list(t) for t in trios], "opts": opts, "support": support}


_scratch = None


def judge(inst):
    global _scratch
    if _scratch is None:
        _scratch = synth.Scratch("c05")
    d = os.path.join(_scratch.path, f"p{os.getpid()}")
    os.makedirs(d, exist_ok=True)
    for f in os.listdir(d):
        os.unlink(os.path.join(d, f))
    world, trios, opts = inst["world"], [tuple(t) for t in inst["trios"]], dict(inst["opts"])
    names = [n for n in world["samples"] if n not in world.get("bystanders", [])]
    viols = []
    conv = {}

    def V(clause, detail):
        return {"clause": clause, "signature": "c05:" + clause, "detail": detail + f" [genotypes {world['gts']} support {inst['support']} opts {inst['opts']}]", "instance": inst}

    paths = pw.materialize(world, d)
    kw = {}
    if opts.pop("genmap", False):
        gm = os.path.join(d, "genmap.txt")
        with open(gm, "w") as f:
            f.write("position COMBINED_rate(cM/Mb) Genetic_Map(cM)\n10 0 0\n90 2000.0 0.16\n150 100000.0 6.2\n400 1.0 6.3\n")
        kw["genmap"] = gm
        kw["chromosomes"] = ["chrA"]
    kw.update(opts)
    kw["ped"] = synth.write_ped(os.path.join(d, "fam.ped"), trios)
    rl = os.path.join(d, "recomb.tsv")
    kw["recombination_list_filename"] = rl
    if not world["reads"]:
        kw["phase_inputs"] = []
    parsed, traces, err = pw.run_phase(paths, d, **kw)
    if err:
        return [V("error", f"whatshap phase failed: {err}")], {}, False
    gh = opts.get("genetic_haplotyping", True)
    k = len(world["gts"])
    idx = {n: parsed["samples"].index(n) for n in names}
    calls = [[rec["calls"][idx[n]] for n in names] for rec in parsed["records"]]
    phase = [[synth.decode_phase(c) for c in row] for row in calls]
    nontrivial = False
    for vi in range(k):
        g = world["gts"][vi]
        al = [ALLELES[x] for x in g]
        bad = any(a is None for a in al) or any(not consistent(al[0], al[1], al[2 + c]) for c in range(len(names) - 2))
        if bad:
            for mi, n in enumerate(names):
                if phase[vi][mi] is not None:
                    viols.append(V("conflict-phased", f"variant {vi} has a Mendelian conflict or a missing genotype in the family but {n} is phased: {calls[vi][mi]}"))
            continue
        for c in range(len(names) - 2):
            ph = phase[vi][2 + c]
            if ph is None:
                if gh and len(set(al[2 + c])) > 1 and (len(set(al[0])) == 1 or len(set(al[1])) == 1):
                    viols.append(V("homozygous-parent-unphased", f"variant {vi}: child {names[2 + c]} is heterozygous with a homozygous parent but left unphased: {calls[vi][2 + c]}"))
                continue
            nontrivial = True
            a, b = ph[1]
            if a not in al[0] or b not in al[1]:
                viols.append(V("paternal-maternal-order", f"variant {vi}: child {names[2 + c]} phased {a}|{b}, father has {al[0]}, mother has {al[1]}"))
    # transmission: child's allele equals the allele on the parental haplotype selected by the reported bit
    for t in traces:
        tv = t["transmission_vector"]
        acc = t["accessible_positions"]
        if tv is None:
            continue
        for ti, (child, father, mother) in enumerate(t["trios"]):
            for pi, pos in enumerate(acc):
                vi = (pos - 60) // 40
                val = (tv[pi] >> (2 * ti)) & 3
                pc, pf, pm = phase[vi][names.index(child)], phase[vi][0], phase[vi][1]
                for which, pp, bit in (("father", pf, val & 1), ("mother", pm, (val >> 1) & 1)):
                    if pc is None or pp is None or pc[0] != pp[0]:
                        continue
                    child_allele = pc[1][0] if which == "father" else pc[1][1]
                    for name, f in (("identity", lambda x: x), ("negated", lambda x: 1 - x)):
                        okc = pp[1][f(bit)] == child_allele
                        c = conv.setdefault(name, [0, None])
                        if not okc:
                            c[0] += 1
                            if c[1] is None:
                                c[1] = f"variant {vi}: child {child} {pc}, {which} {pp}, transmission bit {bit}"
    # recombination list entries lie inside one phase set of the child
    if os.path.exists(rl):
        for line in open(rl):
            if line.startswith("#"):
                continue
            r = line.split()
            child, p1, p2 = r[0], int(r[2]), int(r[3])
            v1, v2 = (p1 - 61) // 40, (p2 - 61) // 40
            ci = names.index(child)
            comp = None
            for t in traces:
                if child in t["family"]:
                    comp = {p: c for p, c in t["components"]}
                    # the transmitted haplotypes named in the list are those of the run's transmission vector
                    tv, acc = t["transmission_vector"], t["accessible_positions"]
                    ti = [c_ for c_, _f, _m in t["trios"]].index(child) if child in [c_ for c_, _f, _m in t["trios"]] else None
                    if tv is not None and ti is not None and p1 - 1 in acc and p2 - 1 in acc:
                        b1 = (tv[acc.index(p1 - 1)] >> (2 * ti)) & 3
                        b2 = (tv[acc.index(p2 - 1)] >> (2 * ti)) & 3
                        want = [b1 & 1, b2 & 1, b1 >> 1, b2 >> 1]
                        got = [int(x) for x in r[4:8]]
                        if got != want:
                            viols.append(V("recombination-transmission", f"listed recombination {r}: transmitted haplotypes (father before/after, mother before/after) {got}, the run's transmission vector says {want}"))
                        elif got[0] == got[1] and got[2] == got[3]:
                            viols.append(V("recombination-transmission", f"listed recombination {r} names the same haplotypes on both sides"))
            if comp is None or comp.get(p1 - 1) is None or comp.get(p1 - 1) != comp.get(p2 - 1):
                viols.append(V("recombination-outside-set", f"listed recombination {r} is not inside one phase set (components {comp})"))
    return viols[:5], conv, nontrivial


def run_one(inst):
    viols, conv, nt = judge(inst)
    extra = {}
    for name, (nfail, ex) in conv.items():
        extra["conv_checked"] = extra.get("conv_checked", 0) + 1
        if nfail:
            extra["convfail_" + name] = nfail
            if name == "negated" and len(viols) < 6:
                viols.append({"clause": "transmission", "signature": "c05:transmission", "detail": ex, "instance": inst, "conv": name})
    return Result(nontrivial=nt, violations=viols, extra=extra, outcome=(len(inst["world"]["samples"]), inst["support"], nt, bool([v for v in viols if "conv" not in v])))


def run(rep, tier, seed, only=None):
    st = par.explore(lambda: worlds(tier), run_one, label="C05")
    fails = {n: st.extra.get("convfail_" + n, 0) for n in ("identity", "negated")}
    good = [n for n, c in fails.items() if c == 0]
    viols = [v for v in st.violations if "conv" not in v]
    if not good:
        viols += [v for v in st.violations if v.get("conv")][:3]
    rep.add_violations(viols)
    rep.add_crashes(st.crashes, "C05")
    rep.coverage.update(
        evaluations=st.evaluations,
        distinct_nontrivial=st.nontrivial,
        rule="every family genotype combination of the alphabet x read support x options; non-trivial = at least one child genotype phased",
        samples=[{"gts": s["world"]["gts"], "support": s["support"], "opts": s["opts"]} for s in st.samples[:4]],
        exhaustive=True,
        transmission_bit_readings_consistent=good,
        transmission_checks=st.extra.get("conv_checked", 0),
        distinct_outcomes=len(st.outcomes),
    )
    rep.assumptions += [
        "the meaning of a transmission bit (which parental haplotype it selects) is not documented: one fixed reading must hold for the whole run",
        "reads are error-free copies of haplotypes that realise the family genotypes with at most one paternal recombination",
    ]


def replay(v):
    viols, conv, _ = judge(v["instance"])
    out = list(viols)
    if conv.get("negated", [0])[0] and conv.get("identity", [0])[0]:
        out.append({"clause": "transmission", "detail": conv["negated"][1]})
    return out
