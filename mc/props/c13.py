"""C13  unphase accepts every VCF, removes all phase information and nothing else.

Explicit-state BFS over histories of {unphase, phase --tag=PS, phase --tag=HP} applied to
VCF files; every transition is executed by the real command (in-process run_* functions) on
scratch files; states are VCF texts, deduplicated by canonical hash.  Base files: all
sequences of <= 3 records over 15 call kinds (any ploidy per call, missing and partially
missing genotypes, records without GT, pre-existing PS / HP / PQ).
"""
import hashlib
import itertools
import os

from mc import par, synth
from mc.par import Result

LEVEL = "model_checking"

NOGT = "<nogt>"
NOGT_PS = "<nogt>:PS:PQ"  # no genotype, but phase-set and quality values (in a GT-less record if no other sample has a GT)
KINDS = [".", "./.", "0/.", "./1", "0", "1", "0/1", "1/0", "1|0", "0|1|1", "1/0/0", "0|.|1", NOGT, "0|1:PS", "0/1:HP:PQ", NOGT_PS, ".|1", "0|0", ".|.", "0|1/1"]
DIPLOID = {"./.", "0/.", "./1", "0/1", "1/0", "1|0", "0|1:PS", "0/1:HP:PQ", ".|1", "0|0", ".|."}
POSITIONS = [60, 100, 140, 180]


def reference():
    return synth.make_reference(4242, 260)


def base_text(kinds_per_record, nsamples, header_variant):
    """kinds_per_record: list of tuples (one kind per sample)"""
    seq = reference()
    samples = [f"S{i + 1}" for i in range(nsamples)]
    fmts = ["GT", "DP"]
    declared = header_variant != "undeclared"
    extra = []
    if header_variant == "phasing":
        extra.append("##phasing=none")
    if header_variant == "phasing2":
        # header keys may repeat: two tools announced their phasing
        extra += ["##phasing=partial", "##phasing=whatshap"]
    allk = {k for rec in kinds_per_record for k in rec}
    if declared or True:
        # PS/HP/PQ header lines only if used (or always in the 'declared' variants)
        if declared:
            fmts += ["PS", "HP", "PQ"]
    vcf = synth.VcfText(samples, contigs=[("chrA", len(seq))], formats=fmts, extra_header=extra)
    for ri, rec in enumerate(kinds_per_record):
        pos = POSITIONS[ri]
        ref = seq[pos]
        alt = synth.other_base(ref)
        keys = []
        if any(k not in (NOGT, NOGT_PS) for k in rec):
            keys.append("GT")
        keys.append("DP")
        if any(k in ("0|1:PS", NOGT_PS) for k in rec):
            keys.append("PS")
        if any(k == "0/1:HP:PQ" for k in rec):
            keys += ["HP"]
        if any(k in ("0/1:HP:PQ", NOGT_PS) for k in rec):
            keys += ["PQ"]
        calls = []
        for k in rec:
            c = {"DP": str(10 + ri)}
            if k in (NOGT, NOGT_PS):
                if "GT" in keys:
                    c["GT"] = "."
                if k == NOGT_PS:
                    c["PS"] = "61"
                    c["PQ"] = "11.5"
            elif k == "0|1:PS":
                c["GT"] = "0|1"
                c["PS"] = "61"
            elif k == "0/1:HP:PQ":
                c["GT"] = "0/1"
                c["HP"] = "61-1,61-2"
                c["PQ"] = "23.5"
            else:
                c["GT"] = k
            calls.append(c)
        vcf.add("chrA", pos, ref, [alt], calls, fmt=keys, qual="50", filt="PASS", info=".")
    return vcf.text()


def bases(tier):
    T = tier == "thorough"
    for n in (1, 2, 3):
        for seq in itertools.product(KINDS, repeat=n):
            for hv in ("declared", "phasing", "phasing2") if n <= 2 or T else ("declared",):
                yield ([(k,) for k in seq], 1, hv)
    if T:
        # four records over a reduced alphabet (one representative per class of call)
        for seq in itertools.product([".", "0/.", "1", "1/0", "1|0", "0|.|1", NOGT, "0|1:PS", "0/1:HP:PQ", NOGT_PS], repeat=4):
            yield ([(k,) for k in seq], 1, "declared")
    for k in KINDS:
        if k not in ("0|1:PS", "0/1:HP:PQ", NOGT_PS):
            yield ([(k,)], 1, "undeclared")
    # two samples, mixed ploidy per call
    for a, b in itertools.product(KINDS, repeat=2):
        yield ([(a, b)], 2, "declared")
    two = ["0/1", "1|0", "0", "./.", "0|1:PS", "0/1:HP:PQ", "0|.|1", NOGT]
    for r1 in itertools.product(two, repeat=2):
        for r2 in itertools.product(two[:6] if not T else two, repeat=2):
            yield ([r1, r2], 2, "declared")


_ctx = {}


def ctx():
    """fixed reference + BAM (error-free reads for S1 and S2 over all three positions)"""
    if not _ctx:
        sc = synth.Scratch("c13")
        seq = reference()
        fasta = synth.write_fasta(os.path.join(sc.path, "ref.fa"), [("chrA", seq)])
        vs = [synth.make_variant(seq, p, "SNV") for p in POSITIONS]
        alns = []
        for s in ("S1", "S2"):
            for h in (0, 1):
                for (a, b) in ((0, 2), (0, 1), (1, 2), (2, 3), (0, 3)):
                    q, cig = synth.hap_read(seq, vs, [h] * len(POSITIONS), POSITIONS[a] - 20, POSITIONS[b] + 20)
                    alns.append({"name": f"{s}_{h}_{a}{b}", "chrom": "chrA", "start": POSITIONS[a] - 20, "cigar": cig, "seq": q, "rg": f"rg_{s}"})
        bam = os.path.join(sc.path, "reads.bam")
        synth.write_bam(bam, [("chrA", len(seq))], alns, read_groups=[{"ID": "rg_S1", "SM": "S1"}, {"ID": "rg_S2", "SM": "S2"}])
        _ctx.update(scratch=sc, fasta=fasta, bam=bam, n=0)
    return _ctx


def apply_op(text, op):
    """returns (new text or None, error string or None)"""
    c = ctx()
    c["n"] += 1
    d = c["scratch"].path
    inp = os.path.join(d, f"in{os.getpid()}.vcf")
    out = os.path.join(d, f"out{os.getpid()}.vcf")
    with open(inp, "w") as f:
        f.write(text)
    try:
        if op == "unphase":
            from whatshap.cli.unphase import run_unphase

            run_unphase(inp, out)
        else:
            from whatshap.cli.phase import run_whatshap

            with open(out, "w") as f:
                run_whatshap([c["bam"]], inp, reference=c["fasta"], output=f, tag=op[-2:], write_command_line_header=False)
    except BaseException as e:  # noqa  (SystemExit included)
        return None, f"{type(e).__name__}: {e}"
    with open(out) as f:
        return f.read(), None


def records_of(text):
    return [l for l in text.splitlines() if l and not l.startswith("#")]


def check_unphased(before, after):
    """all clauses for one application unphase(before) = after; returns list of (clause, detail)"""
    out = []
    b = synth.parse_vcf_text(before)
    a = synth.parse_vcf_text(after)
    for h in a["header"]:
        if h.startswith("##FORMAT=<ID=PS,") or h.startswith("##FORMAT=<ID=HP,") or h.startswith("##FORMAT=<ID=PQ,") or h.startswith("##phasing"):
            out.append(("header", f"phase-related header line survives: {h}"))
    if len(a["records"]) != len(b["records"]):
        return out + [("records", f"{len(b['records'])} records in, {len(a['records'])} out")]
    if a["samples"] != b["samples"]:
        out.append(("samples", f"{b['samples']} -> {a['samples']}"))
    for rb, ra in zip(b["records"], a["records"]):
        for k in ("chrom", "pos", "id", "ref", "alt", "filter", "info"):
            if rb[k] != ra[k]:
                out.append(("field", f"{k}: {rb[k]!r} -> {ra[k]!r} at {rb['pos']}"))
        if not synth.num_eq(rb["qual"], ra["qual"]):
            out.append(("field", f"QUAL {rb['qual']} -> {ra['qual']}"))
        for key in ("PS", "HP", "PQ"):
            if key in ra["format"]:
                out.append(("tag", f"{key} still in FORMAT of record {ra['pos']}: {ra['line']}"))
        for cb, ca in zip(rb["calls"], ra["calls"]):
            gb, ga = cb.get("GT"), ca.get("GT")
            if ga is not None and "|" in ga:
                out.append(("phased", f"phased genotype {ga} in output at {ra['pos']}"))
            ab = None if gb is None else sorted(gb.replace("|", "/").split("/"))
            aa = None if ga is None else sorted(ga.replace("|", "/").split("/"))
            if ab != aa and not (ab is None and aa == ["."]) and not (set(ab or []) == {"."} and set(aa or []) == {"."}):
                out.append(("alleles", f"allele multiset {gb} -> {ga} at {ra['pos']}"))
            for key in cb:
                if key in ("GT", "PS", "HP", "PQ"):
                    continue
                if not synth.num_eq(cb[key], ca.get(key, ".")):
                    out.append(("format-value", f"{key}: {cb[key]} -> {ca.get(key)} at {ra['pos']}"))
    return out


def run_base(base):
    kinds, ns, hv = base
    text0 = base_text(kinds, ns, hv)
    diploid = all(k in DIPLOID for rec in kinds for k in rec)
    viols = []
    hashes = set()
    trans = 0

    def hv_(t):
        return hashlib.blake2b(t.encode(), digest_size=8).digest()

    def V(clause, detail, hist):
        # signature: which kind of genotype makes it fail
        feats = sorted({("nogt" if k in (NOGT, NOGT_PS) else "haploid" if k in ("0", "1", ".") else "partial-polyploid" if k == "0|.|1" else "other") for rec in kinds for k in rec})
        sig = "c13:" + clause
        if clause == "unphase-fails":
            sig += ":" + detail.split(":")[0]
        return {"clause": clause, "signature": sig, "detail": detail, "instance": {"base": [list(map(list, kinds)), ns, hv], "history": hist}}

    # reference point: records of unphase(base)
    u0, err0 = apply_op(text0, "unphase")
    trans += 1
    seen = {hv_(text0): ()}
    hashes.add(hv_(text0))
    frontier = [(text0, ())]
    if err0:
        viols.append(V("unphase-fails", err0, ["unphase"]))
    depth_max = 3
    for depth in range(depth_max):
        nxt = []
        for text, hist in frontier:
            ops = ["unphase"] + (["phasePS", "phaseHP"] if diploid else [])
            for op in ops:
                new, err = apply_op(text, op)
                trans += 1
                h2 = list(hist) + [op]
                if err:
                    if op == "unphase":
                        if not (hist == () and err0):
                            viols.append(V("unphase-fails", err, h2))
                    # a failing phase run is not this property's business: transition not enabled
                    continue
                if op == "unphase":
                    for clause, detail in check_unphased(text, new):
                        viols.append(V(clause, detail, h2))
                    again, err2 = apply_op(new, "unphase")
                    trans += 1
                    if err2 or again != new:
                        viols.append(V("idempotent", f"unphase(unphase(x)) differs from unphase(x): {err2 or ''}", h2 + ["unphase"]))
                    if u0 is not None and records_of(new) != records_of(u0):
                        viols.append(V("phase-then-unphase", "records of unphase(state) differ from records of unphase(base): " + _first_diff(records_of(u0), records_of(new)), h2))
                k = hv_(new)
                if k not in seen:
                    seen[k] = tuple(h2)
                    hashes.add(k)
                    nxt.append((new, tuple(h2)))
        frontier = nxt
        if not frontier:
            break
    return Result(n=1, nontrivial=len(seen) > 2, violations=viols[:6], outcomes=hashes, extra={"transitions": trans, "states": len(seen)})


def _first_diff(a, b):
    for x, y in zip(a, b):
        if x != y:
            return f"{x!r} vs {y!r}"
    return f"{len(a)} vs {len(b)} records"


def run(rep, tier, seed, only=None):
    st = par.explore(lambda: bases(tier), run_base, label="C13")
    rep.add_violations(st.violations)
    rep.add_crashes(st.crashes, "C13")
    rep.coverage.update(
        states=len(st.outcomes),
        transitions=st.extra.get("transitions", 0),
        traces_validated_against_impl=st.extra.get("transitions", 0),
        samples=[{"base": s} for s in st.samples[:4]],
        base_files=st.evaluations,
        max_depth=3,
        exhaustive=True,
        rule="BFS to depth 3 from every base file over {unphase, phase --tag=PS, phase --tag=HP}; states = VCF texts deduplicated by hash; "
        "every transition is an execution of the real command; phase transitions are enabled from all-diploid files only",
    )
    rep.assumptions += ["a failing `phase` run is treated as a disabled transition (not judged here)", "single-ALT SNV records at three fixed positions"]


def replay(v):
    b = v["instance"]["base"]
    r = run_base(([tuple(x) for x in b[0]], b[1], b[2]))
    return r.violations
