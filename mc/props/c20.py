"""C20  Auxiliary reports cover the whole run and agree with the phased VCF.

Every world of a bounded alphabet (1-3 chromosomes x family structures x list options x
--distrust-genotypes scenarios) is phased in-process with all three list outputs; the lists
are compared with (a) the traced solver instances, (b) the input/output VCF diff and (c) the
union of the lists obtained by running every chromosome (and every family) separately.
"""
import itertools
import os

from mc import par, phaseworld as pw, synth
from mc.par import Result

LEVEL = "exploration"

RECOMBRATE = 200000.0  # cM/Mb: makes a recombination between neighbouring variants cheap (phred ~ 11)


def family_structures():
    return {
        "single": (["S1"], []),
        "two-unrelated": (["S1", "S2"], []),
        "trio": (["F", "M", "C"], [("C", "F", "M")]),
        "two-trios": (["F", "M", "C", "F2", "M2", "C2"], [("C", "F", "M"), ("C2", "F2", "M2")]),
        "trio+single": (["F", "M", "C", "S1"], [("C", "F", "M")]),
    }


def make_world(nchrom, fam, k, recomb_chroms, change_chroms, seed, change_mode="hom", nested=False, stagger=False, change_kind="SNV"):
    """nested (trios, k = 6): variants 2 and 3 are heterozygous in every member (their own, read-connected phase set)
    and lie inside the interval in which the child's paternal haplotype recombines; the outer variants 0, 1, 4, 5 are
    joined by paired reads.  change_mode: the VCF claims 0/1 where the reads say 0/0 ("hom"), 1/1 where the reads
    say 0/1 ("het"), or both."""
    samples, trios = family_structures()[fam]
    chroms = []
    for ci in range(nchrom):
        vs = [{"pos": 60 + 40 * i, "kind": "SNV", "len": 1} for i in range(k)]
        if change_kind != "SNV" and f"chr{ci + 1}" in change_chroms:
            # the record whose genotype the run changes is an indel (listed as the VCF record, not in a normalised form)
            vs[k - 1] = {"pos": 60 + 40 * (k - 1), "kind": change_kind, "len": 2}
        chroms.append({"name": f"chr{ci + 1}", "length": 60 + 40 * k + 60, "variants": vs})
    haps = {s: {} for s in samples}
    children = {c: (f, m) for c, f, m in trios}
    world = {"seed": seed, "chroms": chroms, "samples": samples, "haps": haps, "reads": [], "vcf_gt_override": {}}
    for c in chroms:
        name = c["name"]
        for s in samples:
            if s in children:
                continue
            # founders: hap0 = all ref, hap1 = all alt  (heterozygous everywhere)
            haps[s][name] = [[0, 1] for _ in range(k)]
            if nested and any(s == m for _, _, m in trios):
                # mothers: homozygous reference outside, heterozygous (alt on hap0) at the nested variants
                haps[s][name] = [[1, 0] if i in (2, 3) else [0, 0] for i in range(k)]
        if stagger and len(samples) > 1:
            # the members of the second family (or the second unrelated sample) are homozygous at the first variant:
            # their phase set starts one variant later than the first family's, at a position both families share
            second = [x for x in samples if x.endswith("2")] or [samples[-1]]
            for s in second:
                if s not in children:
                    haps[s][name][0] = [0, 0]
        for s, (f, m) in children.items():
            ent = []
            for i in range(k):
                # child hap0 from the father, hap1 from the mother; with a recombination in the
                # paternal transmission after the second variant on the chosen chromosomes
                fh = 0 if not (name in recomb_chroms and i >= 2) else 1
                mh = 1
                ent.append([haps[f][name][i][fh], haps[m][name][i][mh]])
            haps[s][name] = ent
        for s in samples:
            for h in (0, 1):
                if nested and (s in children or any(s in t for t in trios)):
                    world["reads"].append({"sample": s, "chrom": name, "hap": h, "segs": [[0, 1, 6, 3], [4, 5, 3, 6]], "n": 3})
                    world["reads"].append({"sample": s, "chrom": name, "hap": h, "segs": [[2, 3, 6, 6]], "n": 3})
                else:
                    world["reads"].append({"sample": s, "chrom": name, "hap": h, "segs": [[0, k - 1, 6, 6]], "n": 3})
    # --distrust-genotypes scenario: the VCF claims 0/1 at the last variant of the chosen chromosomes
    # for the first sample, but every read of that sample carries the reference allele there
    for name in change_chroms:
        s = samples[0] if samples[0] not in children else samples[-1]
        ov = world["vcf_gt_override"].setdefault(s, {}).setdefault(name, {})
        if change_mode in ("hom", "both"):
            world["haps"][s][name][k - 1] = [0, 0]
            ov[k - 1] = "0/1"
        if change_mode in ("het", "both"):
            # reads show both alleles at the first variant, the VCF claims 1/1
            ov[0] = "1/1"
    return world, trios


def materialize(world, d):
    """like pw.materialize, but with genotype overrides in the VCF (reads keep the true haplotypes)"""
    paths = pw.materialize(world, d)
    ov = world.get("vcf_gt_override") or {}
    if ov:
        parsed = synth.parse_vcf(paths["vcf"])
        lines = list(parsed["header"]) + ["\t".join(["#CHROM", "POS", "ID", "REF", "ALT", "QUAL", "FILTER", "INFO", "FORMAT"] + parsed["samples"])]
        idx = {}
        for rec in parsed["records"]:
            i = idx.get(rec["chrom"], 0)
            idx[rec["chrom"]] = i + 1
            t = rec["line"].split("\t")
            for si, s in enumerate(parsed["samples"]):
                g = ov.get(s, {}).get(rec["chrom"], {}).get(i)
                if g:
                    t[9 + si] = g
            lines.append("\t".join(t))
        with open(paths["vcf"], "w") as f:
            f.write("\n".join(lines) + "\n")
    return paths


def read_table(path):
    if not os.path.exists(path):
        return None
    rows = []
    with open(path) as f:
        for line in f:
            if line.startswith("#"):
                continue
            rows.append(line.rstrip("\n").split("\t") if "\t" in line else line.split())
    return rows


def run_lists(paths, d, tag, opts, ped, lists=("read", "gt", "recomb")):
    names = {"read": "reads.tsv", "gt": "gtchange.tsv", "recomb": "recomb.tsv"}
    kw = dict(opts)
    files = {}
    for l in lists:
        files[l] = os.path.join(d, tag + names[l])
        # what an earlier run left at the same path must not survive: a list that was asked for is rewritten
        with open(files[l], "w") as f:
            f.write("#stale\nSTALE\tchrZ\t1\t2\tA\tC\t0/1\t0/0\t0\n")
    if "read" in lists:
        kw["read_list_filename"] = files["read"]
    if "gt" in lists:
        kw["gtchange_list_filename"] = files["gt"]
    if "recomb" in lists and ped:
        kw["recombination_list_filename"] = files["recomb"]
    if ped:
        kw["ped"] = ped
        kw["recombrate"] = RECOMBRATE
    parsed, traces, err = pw.run_phase(paths, d, out_name=tag + "out.vcf", **kw)
    tabs = {l: read_table(p) for l, p in files.items()}
    if "recomb" in lists and not ped:
        tabs["recomb"] = None  # not requested without a pedigree
    stale = [l for l, tab in tabs.items() if tab and any(r and r[0] == "STALE" for r in tab)]
    for l in stale:
        tabs[l] = [r for r in tabs[l] if r and r[0] != "STALE"]
    tabs["_stale"] = stale
    return parsed, traces, err, tabs


_scratch = None


def judge(inst):
    global _scratch
    if _scratch is None:
        _scratch = synth.Scratch("c20")
    d = os.path.join(_scratch.path, f"p{os.getpid()}")
    os.makedirs(d, exist_ok=True)
    for f in os.listdir(d):
        os.unlink(os.path.join(d, f))
    world, trios, opts = inst["world"], [tuple(t) for t in inst["trios"]], inst["opts"]
    viols = []

    def V(clause, detail):
        return {"clause": clause, "signature": "c20:" + clause, "detail": detail, "instance": inst}

    paths = materialize(world, d)
    ped = synth.write_ped(os.path.join(d, "fam.ped"), trios) if trios else None
    lists = tuple(inst["lists"])
    parsed, traces, err, tabs = run_lists(paths, d, "all_", opts, ped, lists)
    if err:
        return [V("error", f"whatshap phase failed: {err}")], False
    for l in tabs.pop("_stale"):
        viols.append(V("stale-list", f"the {l} list still holds the entries an earlier run left at that path: the file was not rewritten"))
    inp = synth.parse_vcf(paths["vcf"])
    chrom_names = [c["name"] for c in world["chroms"]]
    selected = opts.get("chromosomes") or chrom_names
    nontrivial = False
    # ---- (c) whole run == union of per-chromosome runs
    if len(selected) > 1:
        union = {l: [] for l in lists}
        for c in selected:
            o2 = dict(opts, chromosomes=[c])
            _, _, e2, t2 = run_lists(paths, d, f"{c}_", o2, ped, lists)
            if e2:
                viols.append(V("error", f"single-chromosome run failed: {e2}"))
                continue
            for l in lists:
                if t2[l] is not None:
                    union[l] += t2[l]
        for l in lists:
            if tabs[l] is None:
                if union[l]:
                    viols.append(V(f"{l}-list-missing", f"list file not written although single-chromosome runs list {len(union[l])} entries"))
                continue
            if sorted(tabs[l]) != sorted(union[l]):
                missing = [r for r in union[l] if r not in tabs[l]]
                extra = [r for r in tabs[l] if r not in union[l]]
                viols.append(V(f"{l}-list-incomplete", f"{l} list of the whole run differs from the union of the per-chromosome runs: missing {missing[:4]} extra {extra[:4]}"))
            if union[l]:
                nontrivial = True
    # ---- (c') whole run == union of per-family runs
    fams = inst.get("families")
    if fams and len(fams) > 1:
        union = {l: [] for l in lists}
        for fam in fams:
            o2 = dict(opts, samples=list(fam))
            _, _, e2, t2 = run_lists(paths, d, "fam_", o2, ped, lists)
            if e2:
                viols.append(V("error", f"single-family run failed: {e2}"))
                continue
            for l in lists:
                if t2[l] is not None:
                    union[l] += t2[l]
        for l in lists:
            if tabs[l] is not None and sorted(tabs[l]) != sorted(union[l]):
                missing = [r for r in union[l] if r not in tabs[l]]
                viols.append(V(f"{l}-list-incomplete", f"{l} list of the whole run differs from the union of the per-family runs: missing {missing[:4]}"))
    # ---- (a) read list vs traced instances
    if "read" in lists and tabs["read"] is not None:
        exp = []
        for t in traces:
            id2name = {v: k for k, v in t["sample_ids"].items()}
            comp = {p: c for p, c in t["components"]}
            for r, side in zip(t["reads"], t["partition"]):
                ps = [x[0] for x in r["variants"]]
                exp.append([r["name"], str(r["source_id"]), id2name[r["sample_id"]], str(comp[ps[0]] + 1), str(side), str(len(ps)), str(ps[0] + 1), str(ps[-1] + 1)])
        if sorted(tabs["read"]) != sorted(exp):
            missing = [r for r in exp if r not in tabs["read"]]
            extra = [r for r in tabs["read"] if r not in exp]
            viols.append(V("read-list", f"read list differs from the reads handed to the solver: missing {missing[:3]} extra {extra[:3]}"))
        # attributed phase set == PS of the read's first variant in the output (if phased there)
        ps_of = {}
        for rec in parsed["records"]:
            for si, s in enumerate(parsed["samples"]):
                ph = synth.decode_phase(rec["calls"][si])
                if ph:
                    ps_of[(s, rec["chrom"], rec["pos"])] = ph[0]
        chrom_of_read = {}
        for t in traces:
            for r in t["reads"]:
                chrom_of_read[(r["name"], r["sample_id"], t["chromosome"])] = t["chromosome"]
    # ---- (b) changed genotypes == VCF diff
    if "gt" in lists:
        diff = set()
        for ri, ro in zip(inp["records"], parsed["records"]):
            for si, s in enumerate(inp["samples"]):
                a, _ = synth.gt_parse(ri["calls"][si].get("GT"))
                b, _ = synth.gt_parse(ro["calls"][si].get("GT"))
                if a is not None and b is not None and None not in a and None not in b and sorted(a) != sorted(b):
                    diff.add((s, ri["chrom"], ri["pos"], "/".join(map(str, sorted(a))), "/".join(map(str, sorted(b)))))
        got = set()
        for r in tabs["gt"] or []:
            if len(r) < 7:
                viols.append(V("gt-list", f"malformed line in the changed-genotype list: {r}"))
                continue
            got.add((r[0], r[1], int(r[2]), r[5], r[6]))
            # the listed REF / ALT are those of the VCF record at that position
            recs = [x for x in inp["records"] if x["chrom"] == r[1] and x["pos"] in (int(r[2]), int(r[2]) + 1)]
            if not any(x["ref"] == r[3] and ",".join(x["alt"]) == r[4] for x in recs):
                viols.append(V("gt-list", f"changed-genotype list line {r} names no record of the VCF (records near that position: {[(x['pos'], x['ref'], x['alt']) for x in recs]})"))
        # the list prints 0-based positions; accept either convention, consistently
        got0 = {(s, c, p + 1, o, n) for s, c, p, o, n in got}
        if got0 != diff and got != diff:
            viols.append(V("gt-list", f"changed-genotype list {sorted(got)} (0-based) differs from the input/output VCF differences {sorted(diff)}"))
        if not opts.get("distrust_genotypes") and (got or diff):
            viols.append(V("gt-change-without-distrust", f"genotypes changed without --distrust-genotypes: {sorted(diff)} listed {sorted(got)}"))
        if diff:
            nontrivial = True
    # ---- recombination entries lie inside one phase set of that child
    if "recomb" in lists and tabs.get("recomb"):
        for r in tabs["recomb"]:
            child, chrom, p1, p2 = r[0], r[1], int(r[2]), int(r[3])
            si = parsed["samples"].index(child)
            ps = {}
            for rec in parsed["records"]:
                if rec["chrom"] == chrom:
                    ph = synth.decode_phase(rec["calls"][si])
                    ps[rec["pos"]] = ph[0] if ph else None
            comp = None
            for t in traces:
                if t["chromosome"] == chrom and child in t["family"]:
                    comp = {p + 1: c for p, c in t["components"]}
            if comp is None or p1 not in comp or p2 not in comp or comp[p1] != comp[p2]:
                viols.append(V("recombination-outside-set", f"listed recombination {r} does not lie between two variants of one phase set (components {comp})"))
            nontrivial = True
    return viols, nontrivial


def worlds(tier):
    T = tier == "thorough"
    seed = int(os.environ.get("VERIF_SEED", "0")) + 21
    all_lists = ["read", "gt", "recomb"]
    list_sets = [all_lists] if not T else [list(c) for n in (1, 2, 3) for c in itertools.combinations(all_lists, n)]
    for fam in family_structures():
        samples, trios = family_structures()[fam]
        families = None
        if fam == "two-unrelated":
            families = [["S1"], ["S2"]]
        elif fam == "two-trios":
            families = [["F", "M", "C"], ["F2", "M2", "C2"]]
        elif fam == "trio+single":
            families = [["F", "M", "C"], ["S1"]]
        for nchrom in (1, 2, 3):
            k = 3 if trios else 2
            cn = [f"chr{i + 1}" for i in range(nchrom)]
            subsets = [[]] + [[c] for c in cn] + ([cn] if nchrom > 1 else [])
            for recomb in (subsets if trios else [[]]):
                for change in subsets:
                    for tag in ("PS", "HP") if (T or not change) else ("PS",):
                        for chrsel in [None] + ([cn[:2]] if nchrom == 3 else []) + ([[cn[-1]]] if nchrom > 1 and T else []):
                            for lists in list_sets:
                                opts = {"tag": tag}
                                if change:
                                    opts.update(distrust_genotypes=True, include_homozygous=True)
                                elif T and not trios:
                                    pass
                                if chrsel:
                                    opts["chromosomes"] = chrsel
                                world, tr = make_world(nchrom, fam, k, recomb, change, seed)
                                yield {"world": world, "trios": [list(t) for t in tr], "opts": opts, "lists": lists, "families": families, "fam": fam}
                                if change and nchrom <= 2:
                                    for ck in ("DEL", "INS"):
                                        world, tr = make_world(nchrom, fam, k, recomb, change, seed, change_kind=ck)
                                        yield {"world": world, "trios": [list(t) for t in tr], "opts": opts, "lists": lists, "families": families, "fam": fam}
                                if change:
                                    # genotype changes towards heterozygous (and both directions), both tags
                                    for mode in ("het", "both") if T else ("het",):
                                        for tag2 in ("PS", "HP"):
                                            if T and tag2 != tag:
                                                continue
                                            world, tr = make_world(nchrom, fam, 3, recomb, change, seed, change_mode=mode)
                                            yield {"world": world, "trios": [list(t) for t in tr], "opts": dict(opts, tag=tag2), "lists": lists, "families": families, "fam": fam}
                                if not change and not recomb and nchrom <= 2:
                                    # the first variant of every chromosome on the first base (phase set id 1, component id
                                    # 0 inside the program); further reads that start at the second variant
                                    world, tr = make_world(nchrom, fam, 3, recomb, change, seed)
                                    for c in world["chroms"]:
                                        c["variants"][0]["pos"] = 0
                                    for s_ in world["samples"]:
                                        for c in world["chroms"]:
                                            for h_ in (0, 1):
                                                world["reads"].append({"sample": s_, "chrom": c["name"], "hap": h_, "segs": [[1, 2, 6, 6]], "n": 1})
                                    yield {"world": world, "trios": [list(t) for t in tr], "opts": opts, "lists": lists, "families": families, "fam": fam, "first_base": True}
                                if fam in ("two-unrelated", "two-trios", "trio+single") and not change and not recomb:
                                    world, tr = make_world(nchrom, fam, 3, recomb, change, seed, stagger=True)
                                    yield {"world": world, "trios": [list(t) for t in tr], "opts": opts, "lists": lists, "families": families, "fam": fam, "stagger": True}
                                if trios and recomb and not change and nchrom <= 2:
                                    # a phase set nested inside the recombination interval
                                    world, tr = make_world(nchrom, fam, 6, recomb, change, seed, nested=True)
                                    yield {"world": world, "trios": [list(t) for t in tr], "opts": opts, "lists": lists, "families": families, "fam": fam, "nested": True}
                                if change and not T:
                                    # the same genotype conflict without --distrust-genotypes: nothing may change
                                    yield {"world": world, "trios": [list(t) for t in tr], "opts": {"tag": tag}, "lists": lists, "families": families, "fam": fam}


def run_one(inst):
    viols, nt = judge(inst)
    return Result(nontrivial=nt, violations=viols[:4], outcome=(inst["fam"], len(inst["world"]["chroms"]), bool(viols)))


def run(rep, tier, seed, only=None):
    st = par.explore(lambda: worlds(tier), run_one, label="C20")
    rep.add_violations(st.violations)
    rep.add_crashes(st.crashes, "C20")
    rep.coverage.update(
        evaluations=st.evaluations,
        distinct_nontrivial=st.nontrivial,
        rule="every world (chromosome count x family structure x recombination / genotype-change placement x tag x chromosome selection x list options); "
        "non-trivial = a list has entries on some chromosome (recombination, changed genotype or reads)",
        samples=[{"fam": s["fam"], "opts": s["opts"], "lists": s["lists"], "chromosomes": len(s["world"]["chroms"])} for s in st.samples[:4]],
        exhaustive=True,
        distinct_outcomes=len(st.outcomes),
    )
    rep.assumptions += [
        "expected list entries are obtained differentially (whole run vs. union of single-chromosome / single-family runs) and from the trace hook",
        "which transmission changes count as a recombination event is the tool's own criterion; only membership in one phase set and completeness over chromosomes/families are judged",
    ]


def replay(v):
    return judge(v["instance"])[0]
