"""C17  haplotag followed by haplotagphase reproduces the phasing that tagged the reads.

Pipeline histories phase -> haplotag -> (unphase | partial unphase) -> haplotagphase are run
with the real commands on synthetic worlds (k <= 4 variants of mixed types, 1-2 phase sets,
error-free reads none of which overlaps two sets, covered / uncovered variants, one set left
untagged); for every subset of variants left phased in haplotagphase's input the output is
compared with the original phased VCF.
"""
import itertools
import os

import pysam

from mc import par, phaseworld as pw, synth
from mc.par import Result

LEVEL = "model_checking"


def scenarios(tier):
    T = tier == "thorough"
    seed = int(os.environ.get("VERIF_SEED", "0")) + 71
    type_sets = [("SNV", "SNV", "SNV", "SNV"), ("SNV", "INS", "SNV", "DEL"), ("DEL", "SNV", "INS", "SNV")]
    type_sets += [("INS", "INS", "SNV", "SNV"), ("SNV", "DEL", "DEL", "SNV"), ("MNP", "SNV", "INS", "SNV")]
    # a record with two ALT alleles (genotype 1/2): `phase` leaves it alone, the harness phases it in the original VCF
    type_sets += [("SNV", "MULTI", "SNV", "SNV"), ("MULTI", "SNV", "DEL", "MULTI")]
    # a record whose genotype is not called (./.) under the reads: never phased, and no obstacle for the others
    type_sets += [("SNV", "MISS", "SNV", "SNV"), ("SNV", "SNV", "MISS", "DEL")]
    if T:
        type_sets += [("DEL", "INS", "MNP", "SNV"), ("SNV", "SNV", "DEL", "INS"), ("INS", "SNV", "SNV", "MNP")]
    for k in (2, 3, 4):
        for types in type_sets:
            tv = types[:k]
            for blocks in (("A",) * k,) + (((("A", "A", "B", "B")[:k]),) if k >= 3 else ()) + ((("A", "B", "B", "B")[:k],) if (k == 4 and T) else ()):
                if len(set(blocks)) == 2 and blocks.count("B") < 1:
                    continue
                for hp in [p for p in itertools.product((0, 1), repeat=k) if p[0] == 0]:
                    for cover in ("all", "one-uncovered", "set-untagged", "chromosome-untagged"):
                        if cover == "set-untagged" and (len(set(blocks)) < 2 or blocks.count("A") < 2):
                            continue  # (block A alone must still have reads: haplotag refuses an empty BAM)
                        if cover == "chromosome-untagged" and (k != 3 or len(set(blocks)) > 1):
                            continue
                        yield {"seed": seed, "types": list(tv), "blocks": list(blocks), "hp": list(hp), "cover": cover}
                        if cover == "all" and k == 3 and types == type_sets[0]:
                            yield {"seed": seed, "types": list(tv), "blocks": list(blocks), "hp": list(hp), "cover": cover, "second_sample": True}


def build_world(sc):
    k = len(sc["types"])
    vs = []
    for i, t in enumerate(sc["types"]):
        if t == "MULTI":
            vs.append({"pos": 60 + 45 * i, "kind": "SNV", "len": 1, "multi": True})
        elif t == "MISS":
            vs.append({"pos": 60 + 45 * i, "kind": "SNV", "len": 1})
        else:
            vs.append({"pos": 60 + 45 * i, "kind": t, "len": 2 if t in ("INS", "DEL", "MNP") else 1})
    haps = [([1 + a, 2 - a] if t == "MULTI" else "miss" if t == "MISS" else [a, 1 - a]) for a, t in zip(sc["hp"], sc["types"])]
    world = {"seed": sc["seed"], "chroms": [{"name": "chrA", "length": 60 + 45 * k + 70, "variants": vs}], "samples": ["S1"], "haps": {"S1": {"chrA": haps}}, "reads": []}
    chroms = ["chrA"]
    if sc["cover"] == "chromosome-untagged":
        # a second chromosome that is phased by `phase` but has no alignment at all in the tagged BAM
        world["chroms"].append({"name": "chrB", "length": 60 + 45 * k + 70, "variants": [dict(v) for v in vs]})
        world["haps"]["S1"]["chrB"] = [h if isinstance(h, str) else list(h) for h in haps]
        chroms.append("chrB")
    # reads: per block, reads covering the whole block on both haplotypes (never two blocks)
    for c in chroms:
        for b in sorted(set(sc["blocks"])):
            idx = [i for i, x in enumerate(sc["blocks"]) if x == b]
            if len(idx) < 2:
                continue
            for h in (0, 1):
                world["reads"].append({"sample": "S1", "chrom": c, "hap": h, "segs": [[idx[0], idx[-1], 7, 7]], "n": 2, "block": b})
        # short reads of haplotype 0 over a two-ALT record only: haplotag has nothing to tag them with, so they must
        # not take part in the vote of haplotagphase
        for i, t in enumerate(sc["types"]):
            if t == "MULTI" and c == "chrA":
                world["reads"].append({"sample": "S1", "chrom": c, "hap": 0, "segs": [[i, i, 4, 9]], "n": 6, "block": sc["blocks"][i], "short": True})
    return world


def partial_unphase(text, keep):
    """unphase every record whose index is not in keep (what `unphase` would do, restricted to some records)"""
    out = []
    ri = 0
    for line in text.splitlines():
        if line.startswith("#") or not line:
            out.append(line)
            continue
        t = line.split("\t")
        if ri not in keep:
            fmt = t[8].split(":")
            vals = t[9].split(":")
            d = dict(zip(fmt, vals))
            if "|" in d.get("GT", ""):
                d["GT"] = "/".join(sorted(d["GT"].split("|")))
            if "PS" in d:
                d["PS"] = "."
            t[9] = ":".join(d.get(k, ".") for k in fmt)
        out.append("\t".join(t))
        ri += 1
    return "\n".join(out) + "\n"


def foreign_rephase(text, idx):
    """the chosen (phased) records get the phase of another source: own phase set 9001, reversed haplotype numbering"""
    out = []
    ri = 0
    for line in text.splitlines():
        if line.startswith("#") or not line:
            out.append(line)
            continue
        t = line.split("\t")
        if ri in idx:
            fmt = t[8].split(":")
            d = dict(zip(fmt, t[9].split(":")))
            if "|" in d.get("GT", ""):
                d["GT"] = "|".join(reversed(d["GT"].split("|")))
                d["PS"] = "9001"
            t[9] = ":".join(d.get(k, ".") for k in fmt)
        out.append("\t".join(t))
        ri += 1
    return "\n".join(out) + "\n"


def strip_ps(text, idx):
    """the chosen (phased) records keep their phased genotype but have no PS field (phased by a source that writes no
    phase set, e.g. a pedigree or population phaser; whatshap's reader puts such calls into phase set 0)"""
    out = []
    ri = 0
    for line in text.splitlines():
        if line.startswith("#") or not line:
            out.append(line)
            continue
        t = line.split("\t")
        if ri in idx:
            fmt = t[8].split(":")
            d = dict(zip(fmt, t[9].split(":")))
            if "|" in d.get("GT", "") and "PS" in d:
                fmt = [k for k in fmt if k != "PS"]
                t[8] = ":".join(fmt)
            t[9] = ":".join(d.get(k, ".") for k in fmt)
        out.append("\t".join(t))
        ri += 1
    return "\n".join(out) + "\n"


_scratch = None


def judge(sc):
    global _scratch
    from whatshap.cli.haplotag import run_haplotag
    from whatshap.cli.haplotagphase import run_haplotagphase
    from whatshap.cli.unphase import run_unphase

    if _scratch is None:
        _scratch = synth.Scratch("c17")
    d = os.path.join(_scratch.path, f"p{os.getpid()}")
    os.makedirs(d, exist_ok=True)
    import shutil

    for f in os.listdir(d):
        fp = os.path.join(d, f)
        shutil.rmtree(fp) if os.path.isdir(fp) else os.unlink(fp)
    viols = []
    trans = 0
    states = 0
    k = len(sc["types"])

    def V(clause, detail, hist):
        return {"clause": clause, "signature": "c17:" + clause, "detail": detail + f" [history {hist}; scenario {sc}]", "instance": {"scenario": sc}}

    world = build_world(sc)
    paths = pw.materialize(world, d)
    # --- transition 1: phase
    parsed0, traces, err = pw.run_phase(paths, d, out_name="phased.vcf", trace=False, tag="PS")
    trans += 1
    states += 1
    if err:
        return [V("error", f"phase failed: {err}", ["phase"])], 1, 1, False
    text0 = open(os.path.join(d, "phased.vcf")).read()
    if "MULTI" in sc["types"]:
        # phase the two-ALT records by hand, consistently with the block they belong to (orientation read off a
        # phased neighbour of the same block), as another phaser would have done
        lines = text0.splitlines()
        body = [i for i, l in enumerate(lines) if l and not l.startswith("#")]
        per_chrom = {}
        for i in body:
            per_chrom.setdefault(lines[i].split("\t")[0], []).append(i)
        for cname, idxs in per_chrom.items():
            truth = world["haps"]["S1"][cname]
            for vi, li in enumerate(idxs):
                if sc["types"][vi] != "MULTI":
                    continue
                mates = [vj for vj in range(k) if vj != vi and sc["blocks"][vj] == sc["blocks"][vi] and "|" in lines[idxs[vj]].split("\t")[9]]
                if not mates:
                    continue
                tj = lines[idxs[mates[0]]].split("\t")
                dj = dict(zip(tj[8].split(":"), tj[9].split(":")))
                first = int(dj["GT"].split("|")[0])
                same = first == truth[mates[0]][0]
                a0, a1 = truth[vi] if same else truth[vi][::-1]
                t = lines[li].split("\t")
                t[8] = "GT:PS"
                t[9] = f"{a0}|{a1}:{dj['PS']}"
                lines[li] = "\t".join(t)
        text0 = "\n".join(lines) + "\n"
        with open(os.path.join(d, "phased.vcf"), "w") as f:
            f.write(text0)
        parsed0 = synth.parse_vcf(os.path.join(d, "phased.vcf"))
    orig = {}
    for ri, rec in enumerate(parsed0["records"]):
        orig[ri] = (rec["calls"][0].get("GT"), rec["calls"][0].get("PS"))
    if not any("|" in (g or "") for g, _ in orig.values()):
        return [], 1, 1, False
    # precondition: no read overlaps two different phase sets (by construction), phasing reproduces the blocks
    gz = os.path.join(d, "phased.vcf.gz")
    pysam.tabix_compress(os.path.join(d, "phased.vcf"), gz, force=True)
    pysam.tabix_index(gz, preset="vcf", force=True)
    # reads used for tagging: drop reads of one block or reads over one variant
    bam_in = paths["bam"]
    if sc["cover"] != "all":
        w2 = build_world(sc)
        if sc["cover"] == "set-untagged":
            w2["reads"] = [r for r in w2["reads"] if r["block"] != "B"]
        elif sc["cover"] == "chromosome-untagged":
            w2["reads"] = [r for r in w2["reads"] if r["chrom"] == "chrA"]
        else:
            # shorten the reads of block A so that its last variant is not covered
            for r in w2["reads"]:
                if r["block"] == "A" and not r.get("short") and r["segs"][0][1] - r["segs"][0][0] >= 1:
                    r["segs"][0][1] -= 1
        sub = os.path.join(d, "sub")
        os.makedirs(sub, exist_ok=True)
        p2 = pw.materialize(w2, sub)
        bam_in = p2["bam"]
    # --- transition 2: haplotag
    tagged = os.path.join(d, "tagged.bam")
    try:
        run_haplotag(gz, bam_in, output=tagged, reference=paths["fasta"])
        pysam.index(tagged)
    except Exception as e:  # noqa
        return [V("error", f"haplotag failed: {type(e).__name__}: {e}", ["phase", "haplotag"])], 2, 2, False
    trans += 1
    states += 1
    tags = {}
    covered = {}
    with pysam.AlignmentFile(tagged) as f:
        for s in f:
            t = dict(s.get_tags())
            tags[s.query_name] = (t.get("HP"), t.get("PS"))
    # which records are covered by a tagged read (positions inside the aligned span)
    rec_pos = [(rec["chrom"], rec["pos"]) for rec in parsed0["records"]]
    cov_ps = {ri: set() for ri in range(len(rec_pos))}
    with pysam.AlignmentFile(tagged) as f:
        for s in f:
            t = dict(s.get_tags())
            if "PS" not in t:
                continue
            for ri, (c, p) in enumerate(rec_pos):
                if s.reference_name == c and s.reference_start < p - 1 and p + 3 < s.reference_end:
                    cov_ps[ri].add(t["PS"])
    nontrivial = False
    # --- transitions 3+4: (partial) unphase, haplotagphase, for every subset left phased
    phased_idx = [ri for ri, (g, _) in orig.items() if g and "|" in g]
    # on the untagged chromosome everything stays phased; subsets are formed on chrA
    fixed_keep = tuple(ri for ri in phased_idx if rec_pos[ri][0] != "chrA")
    phased_idx = [ri for ri in phased_idx if rec_pos[ri][0] == "chrA"]
    variants_of_history = []
    for r in range(len(phased_idx) + 1):
        for keep in itertools.combinations(phased_idx, r):
            variants_of_history.append((keep + fixed_keep, False))
            if 1 <= r <= 2:
                variants_of_history.append((keep + fixed_keep, True))
                variants_of_history.append((keep + fixed_keep, "nops"))
    second_sample = bool(sc.get("second_sample"))
    for keep, foreign in variants_of_history:
        if True:
            hist = ["phase", "haplotag", f"unphase-all-but-{list(keep)}" + ("-rephased-by-another-source" if foreign is True else "-without-PS-field" if foreign else ""), "haplotagphase"]
            inp = os.path.join(d, "hp_in.vcf")
            if not keep:
                try:
                    run_unphase(os.path.join(d, "phased.vcf"), inp)
                except Exception as e:  # noqa
                    viols.append(V("error", f"unphase failed: {e}", hist))
                    continue
            else:
                txt = partial_unphase(text0, set(keep))
                if foreign is True:
                    txt = foreign_rephase(txt, set(k_ for k_ in keep if rec_pos[k_][0] == "chrA"))
                elif foreign == "nops":
                    txt = strip_ps(txt, set(k_ for k_ in keep if rec_pos[k_][0] == "chrA"))
                with open(inp, "w") as f:
                    f.write(txt)
            if second_sample:
                # a second sample column (homozygous everywhere, no reads of its own) behind the target
                lines_ = []
                for line in open(inp).read().splitlines():
                    if line.startswith("#CHROM"):
                        line += "\tS2"
                    elif line and not line.startswith("#"):
                        nf = len(line.split("\t")[8].split(":"))
                        line += "\t" + ":".join(["1/1"] + ["."] * (nf - 1))
                    lines_.append(line)
                with open(inp, "w") as f:
                    f.write("\n".join(lines_) + "\n")
            trans += 1
            inp_gz = inp + ".gz"
            pysam.tabix_compress(inp, inp_gz, force=True)
            pysam.tabix_index(inp_gz, preset="vcf", force=True)
            out = os.path.join(d, "hp_out.vcf")
            try:
                with open(out, "w") as f:
                    run_haplotagphase(inp_gz, tagged, output=f, reference=paths["fasta"], write_command_line_header=False)
            except Exception as e:  # noqa
                viols.append(V("error", f"haplotagphase failed: {type(e).__name__}: {e}", hist))
                continue
            trans += 1
            states += 1
            res = synth.parse_vcf(out)
            pin = synth.parse_vcf(inp)
            if second_sample:
                for rec, rin in zip(res["records"], pin["records"]):
                    if rec["calls"][1].get("GT") != rin["calls"][1].get("GT") or synth.decode_phase(rec["calls"][1]):
                        viols.append(V("other-sample-altered", f"record {rec['pos']}: the homozygous call {rin['calls'][1]} of the second sample came back as {rec['calls'][1]}", hist))
                        break
            for ri, (rec, rin) in enumerate(zip(res["records"], pin["records"])):
                g_out, ps_out = rec["calls"][0].get("GT"), rec["calls"][0].get("PS")
                g_in, ps_in = rin["calls"][0].get("GT"), rin["calls"][0].get("PS")
                was_phased = "|" in (g_in or "")
                if was_phased:
                    # a phased genotype in a record without PS belongs to the implicit phase set 0 (as whatshap's reader has it)
                    if (g_out, ps_out if ps_out not in (None, ".", "") else "0") != (g_in, ps_in if ps_in not in (None, ".", "") else "0"):
                        sub = "uncovered" if not cov_ps[ri] else "covered"
                        v = V("phased-input-altered", f"record {ri} ({rec['pos']}) was {g_in}:{ps_in} in the input of haplotagphase and is {g_out}:{ps_out} in its output ({sub} by tagged reads)", hist)
                        v["signature"] += ":" + sub
                        viols.append(v)
                    continue
                if "|" in (g_out or ""):
                    nontrivial = True
                    g0, ps0 = orig[ri]
                    if g_out != g0:
                        viols.append(V("haplotype-order", f"record {ri} ({rec['pos']}) phased {g_out}, the phasing that tagged the reads has {g0}", hist))
                    if not cov_ps[ri]:
                        viols.append(V("phased-without-reads", f"record {ri} ({rec['pos']}) phased {g_out}:{ps_out} but no tagged read covers it", hist))
                    elif ps_out is None or int(ps_out) not in cov_ps[ri]:
                        viols.append(V("phase-set", f"record {ri} ({rec['pos']}) put into phase set {ps_out}, covering reads carry PS {sorted(cov_ps[ri])}", hist))
    # de-duplicate
    seen, outv = set(), []
    for v in viols:
        if v["signature"] not in seen:
            seen.add(v["signature"])
            outv.append(v)
    return outv, states, trans, nontrivial


def run_one(sc):
    viols, states, trans, nt = judge(sc)
    return Result(nontrivial=nt, violations=viols[:5], extra={"states": states, "transitions": trans}, outcome=(len(sc["types"]), sc["cover"], bool(viols)))


def run(rep, tier, seed, only=None):
    st = par.explore(lambda: scenarios(tier), run_one, label="C17")
    rep.add_violations(st.violations)
    rep.add_crashes(st.crashes, "C17")
    rep.coverage.update(
        states=st.extra.get("states", 0),
        transitions=st.extra.get("transitions", 0),
        traces_validated_against_impl=st.extra.get("transitions", 0),
        samples=st.samples[:4],
        base_scenarios=st.evaluations,
        scenarios_in_which_haplotagphase_phased_something=st.nontrivial,
        exhaustive=True,
        rule="per base scenario: phase, haplotag, then for every subset of phased variants kept phased: (partial) unphase and haplotagphase; "
        "a state is a pipeline prefix (files), every transition is an execution of the real command",
    )
    rep.assumptions += ["error-free reads; no read overlaps two phase sets; thresholds of haplotagphase at their defaults", "partial unphasing is done by the generator (text edit equivalent to unphase on the chosen records)"]


def replay(v):
    return judge(v["instance"]["scenario"])[0]
