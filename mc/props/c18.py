"""C18  Priority queue and component finder match their abstract models on all histories.

Explicit-state BFS *to closure* over the exact internal state of the real objects:
PriorityQueue (heap array + positions map through the guarded _verif_state() hook) and
ComponentFinder (parent forest).  Two histories that reach the same internal state have the
same futures, so closure of the state graph covers histories of every length over the
alphabet.
"""
import itertools

from mc import bfs

LEVEL = "model_checking"


def _norm(score):
    """public API reports a score vector of length one as a scalar"""
    if isinstance(score, tuple) and len(score) == 1:
        return score[0]
    return score


def _key(score):
    """lexicographic order with the shorter-prefix-is-lower rule == python tuple order"""
    return score if isinstance(score, tuple) else (score,)


class PQMachine:
    def __init__(self, items, scores, name, ordered_push=False, change_to=None, prefill=None, max_depth=None, no_push=False):
        self.items = list(items)
        self.scores = list(scores)
        self.name = name
        # ordered_push: only the smallest item not queued may be pushed (items are interchangeable
        # for the queue, so this restricts the alphabet without losing heap shapes)
        self.ordered_push = ordered_push
        self.change_to = list(change_to) if change_to is not None else self.scores
        # prefill = n: the initial states are all histories of n pushes (items 0..n-1 in order, every
        # score vector) instead of the empty queue ("start from non-initial states too"); with
        # max_depth the search from them is depth-bounded instead of run to closure
        self.prefill = prefill
        self.max_depth = max_depth
        self.no_push = no_push

    def initial(self):
        if self.prefill:
            return [tuple(("push", i, sc) for i, sc in enumerate(v)) for v in itertools.product(self.scores, repeat=self.prefill)]
        return [()]

    def replay(self, hist):
        from whatshap.priorityqueue import PriorityQueue

        pq = PriorityQueue()
        model = {}
        for op in hist:
            self._apply(pq, model, op)
            # the read-only observers are exercised after every operation of a replayed history as well: what they
            # returned earlier must not influence what they (or pop) return later
            for it in self.items:
                pq.get_score_by_item(it)
            len(pq), pq.is_empty()
        return [pq, model, list(hist)]

    @staticmethod
    def _apply(pq, model, op):
        kind = op[0]
        if kind == "push":
            pq.push(op[2], op[1])
            model[op[1]] = op[2]
            return None
        if kind == "pop":
            r = pq.pop()
            # model: remove the returned item (checked in step)
            model.pop(r[1], None)
            return r
        if kind == "chg":
            pq.change_score(op[1], op[2])
            model[op[1]] = op[2]
            return None
        raise ValueError(op)

    def enabled(self, st):
        pq, model = st[0], st[1]
        ops = []
        pushed = False
        for it in self.items:
            if it not in model:
                if self.no_push or (self.ordered_push and pushed):
                    continue
                pushed = True
                for s in self.scores:
                    ops.append(("push", it, s))
            else:
                for s in self.change_to:
                    ops.append(("chg", it, s))
        if model:
            ops.append(("pop",))
        return ops

    def step(self, st, op):
        pq, model = st[0], st[1]
        st[2].append(op)
        viols = []
        before = dict(model)
        if op[0] == "pop":
            best = max(_key(s) for s in before.values())
            try:
                score, item = pq.pop()
            except Exception as e:  # noqa
                return [self._v("pop-raises", f"pop raised {e!r} on non-empty queue {before}")]
            if item not in before:
                viols.append(self._v("pop-item", f"pop returned item {item} that is not queued: {before}"))
            else:
                if _key(before[item]) != best:
                    viols.append(self._v("pop-order", f"pop returned item {item} with score {before[item]} but maximum is {best}: {before}"))
                if _norm(before[item]) != score:
                    viols.append(self._v("pop-score", f"pop returned score {score!r} for item {item}, last assigned {before[item]!r}"))
                model.pop(item)
        else:
            self._apply(pq, model, op)
        # observers after every transition
        if len(pq) != len(model):
            viols.append(self._v("len", f"len={len(pq)} model={len(model)} after {op}"))
        if pq.is_empty() != (len(model) == 0):
            viols.append(self._v("is_empty", f"is_empty={pq.is_empty()} model size {len(model)} after {op}"))
        for it in self.items:
            got = pq.get_score_by_item(it)
            want = _norm(model[it]) if it in model else None
            if got != want:
                viols.append(self._v("get_score", f"get_score_by_item({it})={got!r}, model {want!r} after {op}; model={model}"))
        return viols

    def _v(self, clause, detail):
        return {"clause": "pq:" + clause, "signature": "pq:" + clause, "detail": detail, "machine": self.name}

    def canon(self, st):
        heap, pos = st[0]._verif_state()
        return (tuple(heap), tuple(sorted(pos.items())))

    def drain(self, hist):
        """pop until empty on a fresh replay: judged behaviour (non-increasing scores, exactly the queued items)"""
        pq, model, _ = self.replay(tuple(hist))
        want = sorted((_key(s) for s in model.values()), reverse=True)
        got = []
        items = set()
        try:
            while not pq.is_empty():
                score, item = pq.pop()
                got.append(_key(score))
                items.add(item)
        except Exception as e:  # noqa
            return f"drain raised {e!r}"
        if got != want or items != set(model):
            return f"draining the queue yields scores {got} (items {sorted(items)}), queued were {want} (items {sorted(model)})"
        return None

    def invariants(self, st):
        pq, model = st[0], st[1]
        heap, pos = pq._verif_state()
        viols = []
        # diagnostic invariants of the internal state (they explain model disagreements)
        for i, (s, it) in enumerate(heap):
            if pos.get(it) != i:
                viols.append(self._v("positions", f"positions[{it}]={pos.get(it)} but heap index {i}; heap={heap} pos={pos}"))
            if i > 0 and heap[(i - 1) // 2][0] < s:
                viols.append(self._v("heap-order", f"heap order broken at {i}: {heap}"))
        if len(pos) != len(heap):
            viols.append(self._v("positions", f"positions has {len(pos)} entries, heap {len(heap)}"))
        if viols:
            # the internal shape looks wrong: decide by observable behaviour (a different but correct
            # layout drains correctly and raises no alarm)
            msg = self.drain(st[2])
            if msg:
                v = self._v("drain-order", msg + f" after history {st[2]}")
                v["instance"] = {"history": list(st[2]) + [("drain",)]}
                viols.append(v)
        return viols

    def outcome(self, st, op):
        heap, _ = st[0]._verif_state()
        return (op[0], len(heap))


class CFMachine:
    def __init__(self, values, name):
        self.values = list(values)
        self.name = name

    def initial(self):
        return [()]

    def replay(self, hist):
        from whatshap.graph import ComponentFinder

        cf = ComponentFinder(self.values)
        blocks = {v: frozenset([v]) for v in self.values}
        for op in hist:
            if op[0] == "merge":
                cf.merge(op[1], op[2])
                self._model_merge(blocks, op[1], op[2])
            else:
                cf.find(op[1])
        return [cf, blocks]

    @staticmethod
    def _model_merge(blocks, x, y):
        if blocks[x] is blocks[y] or blocks[x] == blocks[y]:
            return
        u = blocks[x] | blocks[y]
        for v in u:
            blocks[v] = u

    def enabled(self, st):
        ops = [("merge", x, y) for x, y in itertools.permutations(self.values, 2)]
        ops += [("find", x) for x in self.values]
        return ops

    def step(self, st, op):
        cf, blocks = st
        viols = []
        if op[0] == "merge":
            cf.merge(op[1], op[2])
            self._model_merge(blocks, op[1], op[2])
        else:
            got = cf.find(op[1])
            want = min(blocks[op[1]])
            if got != want:
                viols.append(self._v("find", f"find({op[1]!r})={got!r}, minimum of its component is {want!r}"))
        return viols

    def _v(self, clause, detail):
        return {"clause": "cf:" + clause, "signature": "cf:" + clause, "detail": detail, "machine": self.name}

    def canon(self, st):
        cf = st[0]
        return tuple((v, None if cf.nodes[v].parent is None else cf.nodes[v].parent.value) for v in self.values)

    def invariants(self, st):
        # representative of every element = minimum of its component (find compresses paths, so
        # evaluate it on a replayed copy: here we read the forest without mutating it)
        cf, blocks = st
        viols = []
        for v in self.values:
            node = cf.nodes[v]
            n = 0
            while node.parent is not None:
                node = node.parent
                n += 1
                if n > len(self.values):
                    viols.append(self._v("cycle", f"parent chain of {v!r} does not end"))
                    break
            if node.value != min(blocks[v]):
                viols.append(self._v("root", f"root of {v!r} is {node.value!r}, minimum of its component is {min(blocks[v])!r}"))
        for a, b in itertools.combinations(self.values, 2):
            pass
        return viols

    def outcome(self, st, op):
        return len(set(st[1].values()))


class CFObservedMachine(CFMachine):
    """the same finder, but every element is looked up after every operation (also while a history is replayed):
    what a lookup returned once must not be remembered across a later merge.  The states reached are the fully
    path-compressed ones; CFMachine explores the uncompressed forests."""

    def _observe(self, cf, blocks, viols, after):
        for v in self.values:
            got = cf.find(v)
            want = min(blocks[v])
            if got != want and viols is not None:
                viols.append(self._v("find-after", f"find({v!r})={got!r} after {after!r} (lookups after every operation), minimum of its component is {want!r}"))

    def replay(self, hist):
        from whatshap.graph import ComponentFinder

        cf = ComponentFinder(self.values)
        blocks = {v: frozenset([v]) for v in self.values}
        self._observe(cf, blocks, None, ())
        for op in hist:
            cf.merge(op[1], op[2])
            self._model_merge(blocks, op[1], op[2])
            self._observe(cf, blocks, None, op)
        return [cf, blocks]

    def enabled(self, st):
        return [("merge", x, y) for x, y in itertools.permutations(self.values, 2)]

    def step(self, st, op):
        cf, blocks = st
        viols = []
        cf.merge(op[1], op[2])
        self._model_merge(blocks, op[1], op[2])
        self._observe(cf, blocks, viols, op)
        return viols


class CFPairMachine:
    """two component finders over overlapping value sets alive at the same time; the second one is created by the
    operation ("new",) at any point of the history.  Every element of both finders is looked up after every
    operation (also during replay, so a state is the pair of path-compressed forests): each finder must behave as
    if the other did not exist (nothing may be shared between instances)."""

    def __init__(self, values_a, values_b, name):
        self.va, self.vb = list(values_a), list(values_b)
        self.name = name

    def initial(self):
        return [()]

    def _apply(self, cfs, blocks, op):
        from whatshap.graph import ComponentFinder

        if op[0] == "new":
            cfs[1] = ComponentFinder(self.vb)
            blocks[1] = {v: frozenset([v]) for v in self.vb}
        else:
            cfs[op[1]].merge(op[2], op[3])
            CFMachine._model_merge(blocks[op[1]], op[2], op[3])

    def _observe(self, cfs, blocks, viols, after):
        for w, vals in ((0, self.va), (1, self.vb)):
            if cfs[w] is None:
                continue
            for v in vals:
                got = cfs[w].find(v)
                want = min(blocks[w][v])
                if got != want and viols is not None:
                    viols.append(self._v("two-finders", f"finder {w}: find({v!r})={got!r} after {after!r}, minimum of its component in that finder is {want!r} (two finders alive)"))

    def replay(self, hist):
        from whatshap.graph import ComponentFinder

        cfs = [ComponentFinder(self.va), None]
        blocks = [{v: frozenset([v]) for v in self.va}, None]
        self._observe(cfs, blocks, None, ())
        for op in hist:
            self._apply(cfs, blocks, op)
            self._observe(cfs, blocks, None, op)
        return [cfs, blocks]

    def enabled(self, st):
        cfs, _ = st
        ops = []
        if cfs[1] is None:
            ops.append(("new",))
        for w, vals in ((0, self.va), (1, self.vb)):
            if cfs[w] is None:
                continue
            ops += [("merge", w, x, y) for x, y in itertools.permutations(vals, 2)]
        return ops

    def step(self, st, op):
        cfs, blocks = st
        viols = []
        self._apply(cfs, blocks, op)
        self._observe(cfs, blocks, viols, op)
        return viols

    def _v(self, clause, detail):
        return {"clause": "cf:" + clause, "signature": "cf:" + clause, "detail": detail, "machine": self.name}

    def canon(self, st):
        cfs = st[0]
        return tuple(None if cf is None else tuple((v, None if cf.nodes[v].parent is None else cf.nodes[v].parent.value) for v in vals) for cf, vals in zip(cfs, (self.va, self.vb)))

    def invariants(self, st):
        return []

    def outcome(self, st, op):
        return (len(set(st[1][0].values())), None if st[1][1] is None else len(set(st[1][1].values())))


def machines(tier):
    ms = [
        PQMachine([0, 1, 2, 3], [0, 1, 2], "pq-scalar-4x3"),
        PQMachine([0, 1, 2, 3], [(0,), (0, 0), (0, 1), (1, 0)], "pq-tuple-4x4"),
        PQMachine([5, -1, 7], [0, 1, (0, 1), (1,), (1, 0)], "pq-mixed-3x5"),
        # scores at the ends of the C int range (a comparison by subtraction would wrap around)
        PQMachine([0, 1, 2, 3], [2_000_000_000, -2_000_000_000, 5, (5, -2_000_000_000), (5, 2_000_000_000)], "pq-extreme-4x5", max_depth=5),
        # deep heaps (three levels below the root): sift-down / sift-up paths through inner nodes
        PQMachine(list(range(7)), [0, 1, 2], "pq-deep-7x3-depth2", prefill=7, max_depth=2, no_push=True),
        PQMachine(list(range(9)), [0, 1, 2], "pq-deep-9x3-depth1", prefill=9, max_depth=1, no_push=True),
        CFMachine([0, 1, 2, 3, 4], "cf-int-5"),
        CFMachine([7, 3, 9, 1], "cf-unsorted-4"),
        CFMachine(["b", "a", "d", "c"], "cf-str-4"),
        CFObservedMachine([0, 1, 2, 3, 4], "cf-observed-int-5"),
        CFObservedMachine([7, 3, 9, 1], "cf-observed-unsorted-4"),
        CFPairMachine([1, 2, 3, 4], [2, 3, 4, 5], "cf-two-finders-4+4"),
        CFPairMachine(["a", "b", "c"], ["b", "c", "d"], "cf-two-finders-str-3+3"),
    ]
    if tier == "thorough":
        ms += [
            PQMachine([0, 1, 2, 3, 4], [0, 1, 2, 3], "pq-scalar-5x4"),
            PQMachine([0, 1, 2, 3], [0, 1, (0, 0), (0, 1), (1,), (1, 0), (0, 1, 0)], "pq-mixed-4x7"),
            PQMachine([0, 1, 2, 3, 4, 5], [0, 1], "pq-scalar-6x2"),
            PQMachine(list(range(8)), [0, 1, 2], "pq-deep-8x3-depth2", prefill=8, max_depth=2, no_push=True),
            PQMachine(list(range(7)), [0, 1, 2], "pq-deep-7x3-depth3", prefill=7, max_depth=3, no_push=True, change_to=[0, 2]),
            CFMachine([0, 1, 2, 3, 4, 5], "cf-int-6"),
            CFMachine([4, 8, 15, 16, 23], "cf-sparse-5"),
        ]
    return ms


def long_chain_check():
    """one long history outside the small domains: n elements joined root to root in decreasing order build a parent
    chain as long as the element count (the smaller root always wins); every lookup must still return the minimum"""
    from whatshap.graph import ComponentFinder

    viols = []
    for n in (1500, 5000):
        vals = list(range(1000000, 1000000 + 25 * n, 25))
        cf = ComponentFinder(vals)
        for i in range(n - 2, -1, -1):
            cf.merge(vals[i], vals[i + 1])
        for v in (vals[-1], vals[n // 2], vals[0]):
            try:
                got = cf.find(v)
            except Exception as e:  # noqa
                viols.append({"clause": "cf:long-chain", "signature": "cf:long-chain", "detail": f"find({v}) after {n - 1} merges in decreasing order raised {type(e).__name__}", "instance": {"history": ["long-chain", n]}})
                break
            if got != vals[0]:
                viols.append({"clause": "cf:long-chain", "signature": "cf:long-chain", "detail": f"find({v}) = {got} after {n - 1} merges in decreasing order, minimum is {vals[0]}", "instance": {"history": ["long-chain", n]}})
    return viols


def run(rep, tier, seed, only=None):
    states = transitions = ndiag = 0
    if not only:
        rep.add_violations(long_chain_check())
    per_bounded = []
    samples = []
    per = {}
    all_closed = True
    for m in machines(tier):
        if only and m.name not in only:
            continue
        md = getattr(m, "max_depth", None)
        r = bfs.search_guarded(m, 240 if tier != "thorough" else 3600, label=m.name, nproc=16 if md else 1, max_depth=md)
        if md:
            r["closed"] = True  # depth-bounded by design: the bounded space was enumerated completely
            per_bounded.append(m.name)
        # internal heap-shape invariants are diagnostics only: the judged property is agreement
        # with the abstract model (a different but correct heap layout must not raise an alarm)
        diag = [v for v in r["violations"] if v["clause"] in ("pq:positions", "pq:heap-order")]
        r["violations"] = [v for v in r["violations"] if v not in diag]
        ndiag += len(diag)
        states += r["states"]
        transitions += r["transitions"]
        all_closed &= r["closed"]
        for v in r["violations"]:
            v["machine"] = m.name
        rep.add_violations(r["violations"])
        per[m.name] = {k: r[k] for k in ("states", "transitions", "max_depth", "closed")}
        per[m.name]["distinct_outcomes"] = len(r["outcomes"])
        for s in r["samples"][:2]:
            samples.append({"machine": m.name, "history": s})
    rep.coverage.update(
        states=states,
        transitions=transitions,
        traces_validated_against_impl=transitions,
        samples=samples,
        closed=all_closed,
        exhaustive=all_closed,
        per_machine=per,
        depth_bounded_machines=per_bounded,
        diagnostic_internal_invariant_failures=ndiag,
        rule="BFS to closure over the complete internal state; every transition executes the real "
        "method on a fresh replayed object and compares all observers with the reference model",
    )
    rep.assumptions += [
        "push is only called for items not queued and change_score only for queued items (API precondition)",
        "items and scores restricted to the listed small domains; closure makes history length unbounded",
    ]


def replay(v):
    name = v.get("machine")
    hist = [tuple(op) if not isinstance(op, tuple) else op for op in v["instance"]["history"]]
    hist = [tuple(tuple(x) if isinstance(x, list) else x for x in op) for op in hist]
    for m in machines("thorough"):
        if m.name == name and hist and hist[-1] == ("drain",):
            msg = m.drain(hist[:-1])
            return [{"clause": "pq:drain-order", "detail": msg}] if msg else []
        if m.name == name:
            st = m.replay(tuple(hist[:-1]))
            out = m.step(st, hist[-1]) + m.invariants(st)
            return out
    raise ValueError(f"unknown machine {name}")
