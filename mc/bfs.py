"""Explicit-state breadth-first search over histories of operations on the real implementation.

A state is identified with a history that reaches it; `machine.replay(history)` rebuilds it
on a *fresh* real object (live Cython objects and files cannot be copied), `machine.canon`
hashes the property-relevant (or, where available, the complete) state, and every enabled
operation is executed by the real code and compared with the reference model.
"""
import multiprocessing
import os
import sys
import time
from collections import Counter


class Machine:
    """Interface (duck typed):
    initial()            -> list of initial histories (each a tuple of ops; usually [()])
    replay(history)      -> state object (impl + model), no checking
    enabled(state)       -> list of ops enabled in that state
    step(state, op)      -> list of violation dicts (compares impl result with model), mutates state
    canon(state)         -> hashable canonical form
    invariants(state)    -> list of violation dicts
    outcome(state, op)   -> optional hashable describing what was observed (non-vacuity counter)
    """


def _expand(args):
    machine, hist = args
    out = []

    def _exc(e, what):
        import traceback

        tb = traceback.extract_tb(e.__traceback__)[-1]
        return {"clause": "exception", "signature": f"exception:{type(e).__name__}", "detail": f"{type(e).__name__}: {e} at {os.path.basename(tb.filename)}:{tb.lineno} during {what}", "instance": {"history": list(hist)}}

    try:
        st0 = machine.replay(hist)
    except Exception as e:  # noqa - raised by the code under test while a reached history is replayed
        return hist, [(("<replay>",), ("<exception>", repr(hist)), [_exc(e, f"replay of {list(hist)}")], None)]
    ops = machine.enabled(st0)
    first = True
    for op in ops:
        try:
            st = st0 if first else machine.replay(hist)
        except Exception as e:  # noqa
            out.append((op, ("<exception>", repr(hist), repr(op)), [_exc(e, f"replay of {list(hist)}")], None))
            continue
        first = False
        try:
            viols = machine.step(st, op)
            viols = list(viols) + list(machine.invariants(st))
        except Exception as e:  # noqa - an exception of the code under test is a finding, not a harness failure
            import traceback

            tb = traceback.extract_tb(e.__traceback__)[-1]
            viols = [{"clause": "exception", "signature": f"exception:{type(e).__name__}", "detail": f"{type(e).__name__}: {e} at {os.path.basename(tb.filename)}:{tb.lineno} during {op!r} after {list(hist)}"}]
            for v in viols:
                v.setdefault("instance", {"history": list(hist) + [op]})
            out.append((op, ("<exception>", repr(hist), repr(op)), viols, None))
            continue
        for v in viols:
            v.setdefault("instance", {"history": list(hist) + [op]})
        oc = machine.outcome(st, op) if hasattr(machine, "outcome") else None
        out.append((op, machine.canon(st), viols, oc))
    return hist, out


def search(machine, max_depth=None, nproc=1, label="", max_states=None, progress=True):
    t0 = time.time()
    seen = {}
    frontier = []
    viols = []
    for h in machine.initial():
        st = machine.replay(h)
        k = machine.canon(st)
        for v in machine.invariants(st):
            v.setdefault("instance", {"history": list(h)})
            viols.append(v)
        if k not in seen:
            seen[k] = tuple(h)
            frontier.append(tuple(h))
    transitions = 0
    depth = 0
    outcomes = Counter()
    closed = False
    capped = False
    samples = []
    pool = None
    if nproc > 1:
        ctx = multiprocessing.get_context("fork")
        pool = ctx.Pool(nproc)
    try:
        while frontier:
            if max_depth is not None and depth >= max_depth:
                break
            nxt = []
            if pool is not None and len(frontier) > 1:
                results = pool.imap(_expand, [(machine, h) for h in frontier], chunksize=max(1, len(frontier) // (nproc * 8)))
            else:
                results = map(_expand, [(machine, h) for h in frontier])
            for hist, out in results:
                for op, k, vs, oc in out:
                    transitions += 1
                    if oc is not None:
                        outcomes[oc] += 1
                    if vs and len(viols) < 200:
                        viols.extend(vs)
                    if k not in seen:
                        h2 = hist + (op,)
                        seen[k] = h2
                        nxt.append(h2)
                        if len(samples) < 5 and len(h2) >= 2:
                            samples.append(list(h2))
            depth += 1
            frontier = nxt
            if max_states is not None and len(seen) > max_states:
                capped = True
                break
        else:
            closed = True
    finally:
        if pool is not None:
            pool.terminate()
            pool.join()
    if progress:
        print(
            f"[{label}] states={len(seen)} transitions={transitions} depth={depth} closed={closed} "
            f"outcomes={len(outcomes)} violations={len(viols)} {time.time() - t0:.1f}s",
            file=sys.stderr,
        )
    return {
        "states": len(seen),
        "transitions": transitions,
        "max_depth": depth,
        "closed": closed,
        "capped": capped,
        "outcomes": outcomes,
        "violations": viols,
        "samples": samples,
    }


def search_guarded(machine, timeout, **kw):
    """search() in a forked child with a wall-clock limit: code under test that never returns (for example after
    reading garbage) must end the check with a finding, not hang it.  Returns the result dict of search(); on a
    timeout or a dead child a result with one violation and closed=False."""
    ctx = multiprocessing.get_context("fork")
    parent, child = ctx.Pipe(duplex=False)

    def work():
        try:
            r = search(machine, **kw)
            child.send(("ok", r))
        except BaseException as e:  # noqa
            child.send(("err", f"{type(e).__name__}: {e}"))
        finally:
            child.close()

    p = ctx.Process(target=work)
    p.start()
    child.close()
    res = None
    if parent.poll(timeout):
        try:
            res = parent.recv()
        except EOFError:
            res = None
    if p.is_alive():
        p.kill()
    p.join()
    if res and res[0] == "ok":
        return res[1]
    name = getattr(machine, "name", "?")
    why = f"no result within {timeout} s (the code under test hangs)" if res is None else f"search failed: {res[1]}"
    v = {"clause": "timeout" if res is None else "crash", "signature": ("timeout:" if res is None else "crash:") + name, "detail": f"machine {name}: {why}", "instance": {"machine": name}}
    return {"states": 0, "transitions": 0, "max_depth": 0, "closed": False, "capped": False, "violations": [v], "outcomes": Counter(), "samples": []}
