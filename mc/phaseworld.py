"""Worlds for `whatshap phase` and friends: a JSON-able description with known ground truth,
materialised to FASTA + VCF + BAM, the command run in-process, the outputs read back
with the independent text reader.

world = {
  "seed": int,
  "chroms": [{"name": str, "length": int, "variants": [{"pos": int, "kind": "SNV|MNP|INS|DEL", "len": int}]}],
  "samples": [str],
  "haps": {sample: {chrom: [[a0, a1] | "hom0" | "hom1" | "miss" ... per variant]}},   true haplotype alleles
  "reads": [{"sample": s, "chrom": c, "hap": 0|1, "segs": [[first_var, last_var, left_margin, right_margin], ...],
             "link": "N" | "pair", "n": copies, "style": "M" | "=X"}],
  "vcf": optional overrides (decorations) used by C04
}
"""
import io
import json
import logging
import os

from mc import synth

logging.disable(logging.CRITICAL)


def chrom_seq(world, ci):
    c = world["chroms"][ci]
    seq = synth.make_reference(world["seed"] * 1000 + ci, c["length"])
    return synth.make_unshiftable(seq, [(v["pos"], v["kind"], v.get("len", 1)) for v in c["variants"]])


def build_variants(world, ci, seq):
    out = []
    for v in world["chroms"][ci]["variants"]:
        var = synth.make_variant(seq, v["pos"], v["kind"], v.get("len", 1), v.get("k", 1))
        if v.get("multi"):
            # second ALT allele (SNVs only)
            var.alts.append(synth.other_base(var.ref, 2))
        out.append(var)
    return out


def gt_of(entry):
    """true haplotype entry -> (allele0, allele1) or None (missing)"""
    if entry == "hom0":
        return (0, 0)
    if entry == "hom1":
        return (1, 1)
    if entry == "miss":
        return None
    return tuple(entry)


def materialize(world, scratch, vcf_name="in.vcf", phased_truth=False, tag="PS"):
    """Write reference, VCF (unphased genotypes, or the true phasing when phased_truth) and BAM."""
    seqs = []
    variants = []
    for ci, c in enumerate(world["chroms"]):
        s = chrom_seq(world, ci)
        seqs.append((c["name"], s))
        variants.append(build_variants(world, ci, s))
    fasta = synth.write_fasta(os.path.join(scratch, "ref.fa"), seqs)
    samples = world["samples"]
    fmts = ["GT"] + (["PS"] if phased_truth and tag == "PS" else []) + (["HP"] if phased_truth and tag == "HP" else [])
    vcf = synth.VcfText(samples, contigs=[(n, len(s)) for n, s in seqs], formats=fmts)
    for ci, c in enumerate(world["chroms"]):
        first_pos = {}
        for vi, v in enumerate(variants[ci]):
            calls = []
            for s in samples:
                g = gt_of(world["haps"][s][c["name"]][vi])
                if g is None:
                    calls.append({"GT": "./."})
                elif len(set(g)) == 1 or not phased_truth or len(g) != 2:
                    # "gt_spelling": "desc" writes unphased genotypes as 1/0, "mixed" does so for every other variant (legal, and what some callers emit)
                    calls.append({"GT": "/".join(map(str, sorted(g, reverse=world.get("gt_spelling") == "desc" or (world.get("gt_spelling") == "mixed" and vi % 2 == 0))))})
                else:
                    blk = world.get("truth_blocks", {}).get(s, {}).get(c["name"])
                    b = blk[vi] if blk else 0
                    if b is None:
                        a = sorted(g)
                        calls.append({"GT": f"{a[0]}/{a[1]}"})
                    else:
                        key = (s, b)
                        if key not in first_pos:
                            first_pos[key] = v.pos + 1
                        if tag == "PS":
                            calls.append({"GT": f"{g[0]}|{g[1]}", "PS": str(first_pos[key])})
                        else:
                            calls.append({"GT": "0/1", "HP": f"{first_pos[key]}-{g[0] + 1},{first_pos[key]}-{g[1] + 1}"})
            for si_, s in enumerate(samples):
                # "vcf_gt_override": {sample: {chrom: {variant index: GT text}}}: the VCF claims a genotype the reads contradict
                g_ = world.get("vcf_gt_override", {}).get(s, {}).get(c["name"], {})
                g_ = g_.get(vi, g_.get(str(vi)))
                if g_:
                    calls[si_] = {"GT": g_}
            vcf.add(c["name"], v.pos, v.ref, v.alts, calls, fmt=fmts)
    vcf_path = vcf.write(os.path.join(scratch, vcf_name))
    # reads
    nbam = 1 + max([r.get("bam", 0) for r in world.get("reads", [])] + [0])
    alns_by_bam = [[] for _ in range(nbam)]
    counters = [0] * nbam
    rgs = [{"ID": f"rg_{s}", "SM": s} for s in samples if s not in world.get("no_read_group", ())]
    n = 0
    for r in world.get("reads", []):
        alns = alns_by_bam[r.get("bam", 0)]
        ci = next(i for i, c in enumerate(world["chroms"]) if c["name"] == r["chrom"])
        seq = seqs[ci][1]
        vs = variants[ci]
        entries = world["haps"][r["sample"]][r["chrom"]]
        alleles = []
        for e in entries:
            g = gt_of(e)
            alleles.append(0 if g is None else g[r["hap"]])
        for i_ in r.get("force_ref", ()):
            # the read ends inside the REF stretch of that variant: it shows the reference bases there whatever its
            # haplotype carries
            alleles[i_] = 0
        for copy in range(r.get("n", 1)):
            n += 1
            counters[r.get("bam", 0)] += 1
            # read names are unique within one file only (every file numbers its reads from 1)
            name = r.get("name", f"r{counters[r.get('bam', 0)]}" if nbam > 1 else f"r{n}")
            pieces = []
            for first, last, lm, rm in r["segs"]:
                start = max(0, vs[first].pos - lm)
                end = min(len(seq), vs[last].pos + len(vs[last].ref) + rm)
                q, cig = synth.hap_read(seq, vs, alleles, start, end, r.get("style", "M"))
                pieces.append((start, end, q, cig))
            # optional clipping: hard clips carry no bases, soft clips carry junk bases
            lead, trail = r.get("lead_clip"), r.get("trail_clip")
            if lead:
                s0, e0, q0, c0 = pieces[0]
                pieces[0] = (s0, e0, ("GATTACAGATTACAGATTACA"[: lead[1]] if lead[0] == "S" else "") + q0, [(4 if lead[0] == "S" else 5, lead[1])] + c0)
            if trail:
                s0, e0, q0, c0 = pieces[-1]
                pieces[-1] = (s0, e0, q0 + ("TTGACCATTGACCATTGACCA"[: trail[1]] if trail[0] == "S" else ""), c0 + [(4 if trail[0] == "S" else 5, trail[1])])
            if len(pieces) == 1 or r.get("link", "N") == "N":
                # one alignment; segments joined by reference skips
                q = ""
                cig = []
                pos = pieces[0][0]
                for k, (s, e, qq, cc) in enumerate(pieces):
                    if k > 0:
                        cig.append((3, s - pieces[k - 1][1]))
                    q += qq
                    cig += cc
                alns.append({"name": name, "chrom": r["chrom"], "start": pos, "cigar": cig, "seq": q, "rg": f"rg_{r['sample']}", "mapq": r.get("mapq", 60)})
            else:
                for k, (s, e, qq, cc) in enumerate(pieces):
                    other = pieces[1 - k] if len(pieces) == 2 else pieces[(k + 1) % len(pieces)]
                    flag = 1 | (0x40 if k == 0 else 0x80)
                    alns.append(
                        {"name": name, "chrom": r["chrom"], "start": s, "cigar": cc, "seq": qq, "rg": f"rg_{r['sample']}", "flag": flag, "mate": {"chrom": r["chrom"], "start": other[0]}, "mapq": r.get("mapq", 60)}
                    )
    bams = []
    for bi, alns in enumerate(alns_by_bam):
        bam = os.path.join(scratch, "reads.bam" if bi == 0 else f"reads{bi + 1}.bam")
        synth.write_bam(bam, [(n_, len(s)) for n_, s in seqs], alns, read_groups=rgs)
        bams.append(bam)
    return {"fasta": fasta, "vcf": vcf_path, "bam": bams[0], "bams": bams, "variants": variants, "seqs": seqs}


def run_phase(paths, scratch, out_name="out.vcf", trace=True, phase_inputs=None, **opts):
    """Run whatshap phase in-process.  Returns (parsed output VCF, trace records, error or None)."""
    from whatshap.cli.phase import run_whatshap
    from whatshap.cli import CommandLineError

    out = os.path.join(scratch, out_name)
    tr = os.path.join(scratch, out_name + ".trace")
    if os.path.exists(tr):
        os.unlink(tr)
    os.environ["WHATSHAP_VERIF_TRACE"] = tr if trace else "/dev/null"
    kw = dict(reference=paths["fasta"], write_command_line_header=False)
    kw.update(opts)
    inputs = phase_inputs if phase_inputs is not None else list(paths.get("bams") or [paths["bam"]])
    err = None
    try:
        with open(out, "w") as f:
            run_whatshap(phase_input_files=inputs, variant_file=paths["vcf"], output=f, **kw)
    except CommandLineError as e:
        err = f"CommandLineError: {e}"
    except Exception as e:  # noqa
        import traceback

        tb = traceback.extract_tb(e.__traceback__)
        where = "; ".join(f"{os.path.basename(f.filename)}:{f.lineno} {f.name}" for f in tb[-3:])
        err = f"{type(e).__name__}: {e} @ {where}"
    finally:
        os.environ["WHATSHAP_VERIF_TRACE"] = "/dev/null"
    traces = []
    if trace and os.path.exists(tr):
        with open(tr) as f:
            traces = [json.loads(l) for l in f if l.strip()]
    parsed = synth.parse_vcf(out) if err is None else None
    return parsed, traces, err


def phase_sets(parsed, sample_index):
    """{chrom: {block id: [(record index, pos, hap alleles)]}} from the independent decoder"""
    out = {}
    for ri, rec in enumerate(parsed["records"]):
        ph = synth.decode_phase(rec["calls"][sample_index])
        if ph is None:
            continue
        out.setdefault(rec["chrom"], {}).setdefault(ph[0], []).append((ri, rec["pos"], ph[1]))
    return out
