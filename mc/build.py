"""Rebuild whatshap's extension modules from /repo's *working tree* into a cache outside
/repo and /verif, and materialise an overlay package that is put first on sys.path.

Nothing is ever written into /repo by a check.  Objects are cached by content hash
(source + every header + flags), so an unchanged tree costs only the hashing and a
one-file C++ mutation costs one object and one link.
"""
import fcntl
import hashlib
import os
import shutil
import subprocess
import sys
import sysconfig
import time
from concurrent.futures import ThreadPoolExecutor
from pathlib import Path

REPO = Path(os.environ.get("VERIF_REPO", "/repo"))
CACHE = Path(os.environ.get("VERIF_CACHE", "/var/tmp/whatshap-verif-cache"))
PY = "/venv/bin/python"
GUARD = "WHATSHAP_VERIF_TRACE"

EXT_SUFFIX = sysconfig.get_config_var("EXT_SUFFIX") or ".cpython-312-x86_64-linux-gnu.so"

CORE_SOURCES = """src/pedigree.cpp src/pedigreedptable.cpp src/pedigreecolumncostcomputer.cpp
src/columnindexingiterator.cpp src/columnindexingscheme.cpp src/entry.cpp src/graycodes.cpp
src/read.cpp src/readset.cpp src/columniterator.cpp src/indexset.cpp src/genotype.cpp
src/binomial.cpp src/pedmecheuristic.cpp src/multinomial.cpp src/pedigreepartitions.cpp
src/phredgenotypelikelihoods.cpp src/genotyper.cpp src/genotypedistribution.cpp
src/genotypedptable.cpp src/genotypecolumncostcomputer.cpp src/backwardcolumniterator.cpp
src/transitionprobabilitycomputer.cpp src/hapchat/basictypes.cpp
src/hapchat/balancedcombinations.cpp src/hapchat/binomialcoefficient.cpp
src/hapchat/hapchatcore.cpp src/hapchat/hapchatcolumniterator.cpp src/caller.cpp""".split()

SOLVER_SOURCES = """src/polyphase/allelematrix.cpp src/polyphase/clustereditingsolution.cpp
src/polyphase/clustereditingsolver.cpp src/polyphase/edgeheap.cpp
src/polyphase/inducedcostheuristic.cpp src/polyphase/progenygenotypelikelihoods.cpp
src/polyphase/staticsparsegraph.cpp src/polyphase/switchflipcalculator.cpp
src/polyphase/trianglesparsematrix.cpp src/polyphase/readscoring.cpp
src/polyphase/haplothreader.cpp src/polyphase/tupleconverter.cpp""".split()

# (module name, pyx, extra C++ sources) -- mirrors setup.py; a self-test below checks that
# setup.py still lists the same sources.
EXTENSIONS = [
    ("whatshap.core", "whatshap/core.pyx", CORE_SOURCES),
    ("whatshap.polyphase.solver", "whatshap/polyphase/solver.pyx", SOLVER_SOURCES),
    ("whatshap.readselect", "whatshap/readselect.pyx", []),
    ("whatshap.priorityqueue", "whatshap/priorityqueue.pyx", []),
    ("whatshap.align", "whatshap/align.pyx", []),
    ("whatshap._variants", "whatshap/_variants.pyx", []),
]


class BuildError(Exception):
    pass


def _h(*parts):
    m = hashlib.sha256()
    for p in parts:
        if isinstance(p, str):
            p = p.encode()
        m.update(p)
        m.update(b"\0")
    return m.hexdigest()[:24]


def _file_hash(path):
    return hashlib.sha256(Path(path).read_bytes()).hexdigest()


def _cflags():
    inc = sysconfig.get_config_var("INCLUDEPY")
    # interpreter CFLAGS as distutils would use them (minus -g), then setup.py's own
    base = "-fno-strict-overflow -Wsign-compare -DNDEBUG -g0 -O3 -Wall -fPIC"
    ours = "-std=c++11 -Werror=return-type -Werror=narrowing -UNDEBUG"
    # paths relative to the repository root (the compiler runs with cwd=REPO) so that the
    # object cache is shared between /repo and scratch worktrees
    return f"{base} -Isrc/ -I{inc} {ours}".split()


def _check_setup_py():
    """The source lists above mirror setup.py; refuse to run if they diverge."""
    text = (REPO / "setup.py").read_text()
    listed = set()
    for line in text.splitlines():
        line = line.strip().strip(",")
        if line.startswith('"') and line.endswith('"') and (line.endswith('.cpp"') or line.endswith('.pyx"')):
            listed.add(line.strip('"'))
    for token in ("whatshap/readselect.pyx", "whatshap/priorityqueue.pyx", "whatshap/align.pyx", "whatshap/_variants.pyx"):
        if token in text:
            listed.add(token)
    mine = set()
    for _, pyx, extra in EXTENSIONS:
        mine.add(pyx)
        mine.update(extra)
    if listed != mine:
        raise BuildError(
            "setup.py lists different sources than mc/build.py: "
            f"only setup.py: {sorted(listed - mine)}, only build.py: {sorted(mine - listed)}"
        )


def _run(cmd, cwd=None):
    r = subprocess.run(cmd, cwd=cwd, stdout=subprocess.PIPE, stderr=subprocess.STDOUT, text=True)
    if r.returncode != 0:
        raise BuildError("command failed: " + " ".join(map(str, cmd)) + "\n" + r.stdout[-4000:])
    return r.stdout


def _headers_hash():
    m = hashlib.sha256()
    files = sorted(list((REPO / "src").rglob("*.h")) + list((REPO / "src").rglob("*.hpp")))
    for f in files:
        m.update(str(f.relative_to(REPO)).encode())
        m.update(f.read_bytes())
    return m.hexdigest()


def _pxd_hash():
    m = hashlib.sha256()
    for f in sorted((REPO / "whatshap").rglob("*.pxd")):
        m.update(str(f.relative_to(REPO)).encode())
        m.update(f.read_bytes())
    return m.hexdigest()


def _cythonize(pyx, pxdh):
    import Cython

    src = REPO / pyx
    key = _h("cy", Cython.__version__, pyx, _file_hash(src), pxdh)
    out = CACHE / "cy" / (key + ".cpp")
    if not out.exists():
        out.parent.mkdir(parents=True, exist_ok=True)
        tmp = out.with_suffix(f".tmp{os.getpid()}.cpp")
        # run from the repo root so that cimports resolve exactly as in setup.py
        _run(
            [PY, "-m", "cython", "--cplus", "-3str" if False else "-3", "-I", str(REPO), "-o", str(tmp), str(src)],
            cwd=str(REPO),
        )
        os.replace(tmp, out)
    return out


def _compile(src_path, key_extra, hh, flags):
    key = _h("obj", str(src_path.name), _file_hash(src_path), hh, " ".join(flags), key_extra)
    out = CACHE / "obj" / (key + ".o")
    if not out.exists():
        out.parent.mkdir(parents=True, exist_ok=True)
        tmp = out.with_suffix(f".tmp{os.getpid()}.o")
        _run(["g++"] + flags + ["-c", str(src_path), "-o", str(tmp)], cwd=str(REPO))
        os.replace(tmp, out)
    return key, out


def _link(objs, keys, modname):
    key = _h("so", modname, *keys)
    out = CACHE / "so" / (key + ".so")
    if not out.exists():
        out.parent.mkdir(parents=True, exist_ok=True)
        tmp = out.with_suffix(f".tmp{os.getpid()}.so")
        _run(["g++", "-shared"] + [str(o) for o in objs] + ["-o", str(tmp)])
        os.replace(tmp, out)
    return key, out


def _overlay(so_map):
    # the python side of the overlay is a set of symlinks into REPO: the key must include the tree,
    # otherwise /repo and a scratch worktree with identical extension modules would share (and
    # re-point) one overlay
    key = _h("ov", os.path.realpath(REPO), *[f"{m}={k}" for m, (k, _) in sorted(so_map.items())])
    root = CACHE / "overlay" / key
    pkg = root / "whatshap"
    # (re)materialise the python side every time: cheap, and picks up added / removed files
    want = {}
    for f in (REPO / "whatshap").rglob("*"):
        rel = f.relative_to(REPO / "whatshap")
        if "__pycache__" in rel.parts:
            continue
        if f.is_file() and f.suffix in (".py", ".pyi", ".pxd"):
            want[rel] = f
    for m, (_, so) in so_map.items():
        rel = Path(*m.split(".")[1:])
        want[rel.with_name(rel.name + EXT_SUFFIX)] = so
    pkg.mkdir(parents=True, exist_ok=True)
    have = set()
    for f in pkg.rglob("*"):
        if f.is_symlink() or f.is_file():
            have.add(f.relative_to(pkg))
    for rel in have - set(want):
        if "__pycache__" in rel.parts:
            continue
        try:
            (pkg / rel).unlink()
        except FileNotFoundError:
            pass
    for rel, target in want.items():
        dst = pkg / rel
        dst.parent.mkdir(parents=True, exist_ok=True)
        if dst.is_symlink() and os.readlink(dst) == str(target):
            continue
        tmp = dst.with_name(dst.name + f".tmp{os.getpid()}")
        if tmp.exists() or tmp.is_symlink():
            tmp.unlink()
        os.symlink(target, tmp)
        os.replace(tmp, dst)
    (root / ".used").write_text(str(time.time()))
    return root


def _prune():
    """LRU-bound the cache: keep the 6 most recently used overlays and objects younger than
    the oldest kept overlay (simple: cap total size at ~1.5 GB by deleting oldest files)."""
    try:
        ovs = sorted((CACHE / "overlay").iterdir(), key=lambda p: (p / ".used").stat().st_mtime if (p / ".used").exists() else 0)
        for p in ovs[:-8]:
            shutil.rmtree(p, ignore_errors=True)
        files = []
        total = 0
        for sub in ("obj", "so", "cy"):
            d = CACHE / sub
            if d.exists():
                for f in d.iterdir():
                    st = f.stat()
                    files.append((st.st_atime, st.st_size, f))
                    total += st.st_size
        files.sort()
        cap = 1500 * 1024 * 1024
        while total > cap and files:
            _, sz, f = files.pop(0)
            try:
                f.unlink()
            except FileNotFoundError:
                pass
            total -= sz
    except Exception:
        pass


def ensure(verbose=False, jobs=16):
    """Build (if needed) and return the overlay root to put first on sys.path."""
    t0 = time.time()
    CACHE.mkdir(parents=True, exist_ok=True)
    lock = open(CACHE / ".lock", "w")
    fcntl.flock(lock, fcntl.LOCK_EX)
    try:
        _check_setup_py()
        hh = _headers_hash()
        pxdh = _pxd_hash()
        flags = _cflags()
        tasks = []  # (modname, src_path, key_extra)
        for mod, pyx, extra in EXTENSIONS:
            tasks.append((mod, None, pyx))
            for s in extra:
                tasks.append((mod, REPO / s, ""))

        def work(t):
            mod, src, pyx = t
            if src is None:
                cpp = _cythonize(pyx, pxdh)
                # the generated file includes headers relative to whatshap/ (cpp.pxd: "../src/..")
                fl = flags + ["-Iwhatshap", "-I" + str(Path(pyx).parent)]
                return mod, _compile(cpp, "cy:" + pyx, hh, fl)
            return mod, _compile(src, "", hh, flags)

        with ThreadPoolExecutor(jobs) as ex:
            results = list(ex.map(work, tasks))
        per_mod = {}
        for mod, (k, o) in results:
            per_mod.setdefault(mod, []).append((k, o))
        so_map = {}
        for mod, lst in per_mod.items():
            so_map[mod] = _link([o for _, o in lst], [k for k, _ in lst], mod)
        root = _overlay(so_map)
        _prune()
    finally:
        fcntl.flock(lock, fcntl.LOCK_UN)
        lock.close()
    if verbose:
        print(f"[build] overlay {root} ready in {time.time() - t0:.1f}s", file=sys.stderr)
    return root


def activate(verbose=False):
    """ensure() + put the overlay first on sys.path and PYTHONPATH (for subprocesses)."""
    root = ensure(verbose=verbose)
    p = str(root)
    if p in sys.path:
        sys.path.remove(p)
    sys.path.insert(0, p)
    old = os.environ.get("PYTHONPATH", "")
    parts = [x for x in old.split(os.pathsep) if x and x != p]
    os.environ["PYTHONPATH"] = os.pathsep.join([p] + parts)
    for name in list(sys.modules):
        if name == "whatshap" or name.startswith("whatshap."):
            raise BuildError("whatshap was imported before the overlay was activated")
    import whatshap  # noqa

    wf = os.path.realpath(os.path.dirname(whatshap.__file__))
    if not os.path.dirname(whatshap.__file__).startswith(p):
        raise BuildError(f"overlay not in effect: whatshap imported from {whatshap.__file__}")
    import whatshap.core

    if not whatshap.core.__file__.startswith(p):
        raise BuildError(f"overlay not in effect: whatshap.core from {whatshap.core.__file__}")
    return root


def install_inplace():
    """What setup_cmd does: copy the freshly built extension modules in place into
    /repo/whatshap (the `build_ext --inplace` of a developer) so that the repository's own
    test suite exercises the current sources too."""
    root = ensure(verbose=True)
    for f in (root / "whatshap").rglob("*" + EXT_SUFFIX):
        rel = f.relative_to(root / "whatshap")
        dst = REPO / "whatshap" / rel
        src = os.path.realpath(f)
        tmp = dst.with_name(dst.name + ".tmp")
        shutil.copyfile(src, tmp)
        os.chmod(tmp, 0o755)
        os.replace(tmp, dst)
    return root


if __name__ == "__main__":
    if len(sys.argv) > 1 and sys.argv[1] == "inplace":
        print(install_inplace())
    else:
        print(ensure(verbose=True))
